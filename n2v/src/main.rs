//! n2v worker: one shard of one engine for one property (see /verif/check).
use n2v::report::Report;
use n2v::*;
use std::path::PathBuf;
use std::time::{Duration, Instant};

fn main() {
    let args: Vec<String> = std::env::args().collect();
    if args.len() < 2 {
        eprintln!("usage: n2v <sim|pure> --prop Cxx [--tier quick|thorough] [--seed N] [--shard i/n] [--budget-ms T] [--out file] [--case N]");
        std::process::exit(2);
    }
    let engine = args[1].clone();
    let prop = arg(&args, "--prop").unwrap_or("C01").to_string();
    let tier = arg(&args, "--tier").unwrap_or("quick").to_string();
    let seed: u64 = arg(&args, "--seed").and_then(|s| s.parse().ok()).unwrap_or(1);
    let (shard, nshards) = match arg(&args, "--shard") {
        Some(s) => {
            let (a, b) = s.split_once('/').expect("--shard i/n");
            (a.parse().unwrap(), b.parse().unwrap())
        }
        None => (0, 1),
    };
    let budget: u64 = arg(&args, "--budget-ms").and_then(|s| s.parse().ok()).unwrap_or(10_000);
    let out = arg(&args, "--out").map(PathBuf::from);
    let only_case = arg(&args, "--case").and_then(|s| s.parse().ok());
    let max_cases = arg(&args, "--max-cases").and_then(|s| s.parse().ok()).unwrap_or(u64::MAX);
    let verbose = args.iter().any(|a| a == "-v");
    let keep_stdout = args.iter().any(|a| a == "--keep-stdout");

    let base = if std::path::Path::new("/dev/shm").is_dir() {
        PathBuf::from("/dev/shm")
    } else {
        std::env::temp_dir()
    };
    let scratch = base.join(format!("n2v-{}-{}", std::process::id(), shard));
    let _ = std::fs::remove_dir_all(&scratch);
    std::fs::create_dir_all(&scratch).expect("scratch dir");

    // n2 prints warnings (and task output) with println!; keep our stdout clean.
    if !keep_stdout {
        unsafe {
            let devnull = libc::open(c"/dev/null".as_ptr(), libc::O_WRONLY);
            if devnull >= 0 {
                libc::dup2(devnull, 1);
                libc::close(devnull);
            }
        }
    }
    sim::install_panic_hook();

    let ctx = Ctx {
        prop: prop.clone(),
        tier,
        seed,
        shard,
        nshards,
        deadline: Instant::now() + Duration::from_millis(budget),
        scratch: scratch.clone(),
        only_case,
        max_cases,
        journal: out.as_ref().map(|p| p.with_extension("journal")),
        verbose,
        from_case: arg(&args, "--from-case").and_then(|s| s.parse().ok()),
        fine_journal: args.iter().any(|a| a == "--fine-journal"),
        args: args.clone(),
        out: out.clone().filter(|p| p != std::path::Path::new("/dev/null") && p != std::path::Path::new("/dev/stderr")),
        last_checkpoint: std::cell::Cell::new(Instant::now()),
        started: Instant::now(),
    };
    let mut report = Report::new(&prop);
    let started = Instant::now();
    match engine.as_str() {
        "sim" => props::run_sim(&ctx, &mut report),
        "pure" => pure::run(&ctx, &mut report),
        "real" => props::realp::run(&ctx, &mut report),
        other => {
            eprintln!("unknown engine {}", other);
            std::process::exit(2);
        }
    }
    let _ = std::env::set_current_dir("/");
    let _ = std::fs::remove_dir_all(&scratch);
    let mut j = report.to_json();
    j.set("wall_s", json::J::Num(started.elapsed().as_secs_f64()));
    j.set("seed", json::J::i(seed));
    j.set("shard", json::J::i(shard));
    let text = j.dump();
    match out {
        Some(p) => std::fs::write(p, text).expect("write report"),
        None => eprintln!("{}", text),
    }
}
