//! Minimal JSON value, writer and parser (no external crates).
use std::collections::BTreeMap;
use std::fmt::Write;

#[derive(Clone, Debug, PartialEq)]
pub enum J {
    Null,
    Bool(bool),
    Num(f64),
    Int(i64),
    Str(String),
    Arr(Vec<J>),
    Obj(BTreeMap<String, J>),
}

impl J {
    pub fn obj() -> J {
        J::Obj(BTreeMap::new())
    }
    pub fn set(&mut self, k: &str, v: J) -> &mut J {
        if let J::Obj(m) = self {
            m.insert(k.to_string(), v);
        }
        self
    }
    pub fn with(mut self, k: &str, v: J) -> J {
        self.set(k, v);
        self
    }
    pub fn get(&self, k: &str) -> Option<&J> {
        match self {
            J::Obj(m) => m.get(k),
            _ => None,
        }
    }
    pub fn as_i64(&self) -> Option<i64> {
        match self {
            J::Int(i) => Some(*i),
            J::Num(f) => Some(*f as i64),
            _ => None,
        }
    }
    pub fn as_str(&self) -> Option<&str> {
        match self {
            J::Str(s) => Some(s),
            _ => None,
        }
    }
    pub fn as_arr(&self) -> Option<&Vec<J>> {
        match self {
            J::Arr(a) => Some(a),
            _ => None,
        }
    }
    pub fn s(x: impl Into<String>) -> J {
        J::Str(x.into())
    }
    pub fn i(x: impl TryInto<i64>) -> J {
        J::Int(x.try_into().unwrap_or(i64::MAX))
    }
    pub fn strs<I: IntoIterator<Item = S>, S: Into<String>>(it: I) -> J {
        J::Arr(it.into_iter().map(|s| J::Str(s.into())).collect())
    }
    /// Lossy rendering of bytes as a string for evidence/replay.
    pub fn bytes(b: &[u8]) -> J {
        J::Str(String::from_utf8_lossy(b).into_owned())
    }

    pub fn dump(&self) -> String {
        let mut s = String::new();
        self.write(&mut s);
        s
    }
    fn write(&self, out: &mut String) {
        match self {
            J::Null => out.push_str("null"),
            J::Bool(b) => out.push_str(if *b { "true" } else { "false" }),
            J::Num(f) => {
                if f.is_finite() {
                    write!(out, "{}", f).unwrap()
                } else {
                    out.push_str("null")
                }
            }
            J::Int(i) => write!(out, "{}", i).unwrap(),
            J::Str(s) => write_str(s, out),
            J::Arr(a) => {
                out.push('[');
                for (i, v) in a.iter().enumerate() {
                    if i > 0 {
                        out.push(',');
                    }
                    v.write(out);
                }
                out.push(']');
            }
            J::Obj(m) => {
                out.push('{');
                for (i, (k, v)) in m.iter().enumerate() {
                    if i > 0 {
                        out.push(',');
                    }
                    write_str(k, out);
                    out.push(':');
                    v.write(out);
                }
                out.push('}');
            }
        }
    }

    pub fn parse(text: &str) -> Result<J, String> {
        let mut p = P { b: text.as_bytes(), i: 0 };
        let v = p.value()?;
        p.ws();
        if p.i != p.b.len() {
            return Err(format!("trailing data at {}", p.i));
        }
        Ok(v)
    }
}

fn write_str(s: &str, out: &mut String) {
    out.push('"');
    for c in s.chars() {
        match c {
            '"' => out.push_str("\\\""),
            '\\' => out.push_str("\\\\"),
            '\n' => out.push_str("\\n"),
            '\r' => out.push_str("\\r"),
            '\t' => out.push_str("\\t"),
            c if (c as u32) < 0x20 => write!(out, "\\u{:04x}", c as u32).unwrap(),
            c => out.push(c),
        }
    }
    out.push('"');
}

struct P<'a> {
    b: &'a [u8],
    i: usize,
}
impl<'a> P<'a> {
    fn ws(&mut self) {
        while self.i < self.b.len() && matches!(self.b[self.i], b' ' | b'\n' | b'\r' | b'\t') {
            self.i += 1;
        }
    }
    fn value(&mut self) -> Result<J, String> {
        self.ws();
        if self.i >= self.b.len() {
            return Err("eof".into());
        }
        match self.b[self.i] {
            b'{' => {
                self.i += 1;
                let mut m = BTreeMap::new();
                loop {
                    self.ws();
                    if self.b.get(self.i) == Some(&b'}') {
                        self.i += 1;
                        break;
                    }
                    let k = match self.value()? {
                        J::Str(s) => s,
                        _ => return Err("key".into()),
                    };
                    self.ws();
                    if self.b.get(self.i) != Some(&b':') {
                        return Err("colon".into());
                    }
                    self.i += 1;
                    let v = self.value()?;
                    m.insert(k, v);
                    self.ws();
                    match self.b.get(self.i) {
                        Some(b',') => self.i += 1,
                        Some(b'}') => {
                            self.i += 1;
                            break;
                        }
                        _ => return Err("obj sep".into()),
                    }
                }
                Ok(J::Obj(m))
            }
            b'[' => {
                self.i += 1;
                let mut a = Vec::new();
                loop {
                    self.ws();
                    if self.b.get(self.i) == Some(&b']') {
                        self.i += 1;
                        break;
                    }
                    a.push(self.value()?);
                    self.ws();
                    match self.b.get(self.i) {
                        Some(b',') => self.i += 1,
                        Some(b']') => {
                            self.i += 1;
                            break;
                        }
                        _ => return Err("arr sep".into()),
                    }
                }
                Ok(J::Arr(a))
            }
            b'"' => {
                self.i += 1;
                let mut s = Vec::new();
                loop {
                    let c = *self.b.get(self.i).ok_or("eof in string")?;
                    self.i += 1;
                    match c {
                        b'"' => break,
                        b'\\' => {
                            let e = *self.b.get(self.i).ok_or("eof in escape")?;
                            self.i += 1;
                            match e {
                                b'n' => s.push(b'\n'),
                                b'r' => s.push(b'\r'),
                                b't' => s.push(b'\t'),
                                b'b' => s.push(8),
                                b'f' => s.push(12),
                                b'u' => {
                                    let h = std::str::from_utf8(&self.b[self.i..self.i + 4])
                                        .map_err(|e| e.to_string())?;
                                    let cp = u32::from_str_radix(h, 16).map_err(|e| e.to_string())?;
                                    self.i += 4;
                                    let ch = char::from_u32(cp).unwrap_or('\u{fffd}');
                                    let mut buf = [0u8; 4];
                                    s.extend_from_slice(ch.encode_utf8(&mut buf).as_bytes());
                                }
                                o => s.push(o),
                            }
                        }
                        c => s.push(c),
                    }
                }
                Ok(J::Str(String::from_utf8_lossy(&s).into_owned()))
            }
            b't' => {
                self.i += 4;
                Ok(J::Bool(true))
            }
            b'f' => {
                self.i += 5;
                Ok(J::Bool(false))
            }
            b'n' => {
                self.i += 4;
                Ok(J::Null)
            }
            _ => {
                let st = self.i;
                while self.i < self.b.len()
                    && matches!(self.b[self.i], b'-' | b'+' | b'.' | b'e' | b'E' | b'0'..=b'9')
                {
                    self.i += 1;
                }
                let t = std::str::from_utf8(&self.b[st..self.i]).unwrap();
                if let Ok(i) = t.parse::<i64>() {
                    Ok(J::Int(i))
                } else {
                    t.parse::<f64>().map(J::Num).map_err(|e| format!("num {:?}: {}", t, e))
                }
            }
        }
    }
}
