//! Small deterministic PRNG (splitmix64 seeding + xoshiro256**).
#[derive(Clone, Debug)]
pub struct Rng {
    s: [u64; 4],
}

pub fn mix64(mut z: u64) -> u64 {
    z = z.wrapping_add(0x9e3779b97f4a7c15);
    z = (z ^ (z >> 30)).wrapping_mul(0xbf58476d1ce4e5b9);
    z = (z ^ (z >> 27)).wrapping_mul(0x94d049bb133111eb);
    z ^ (z >> 31)
}

/// FNV-1a, used for content digests and case signatures (not n2's hash).
pub fn fnv(bytes: &[u8]) -> u64 {
    let mut h: u64 = 0xcbf29ce484222325;
    for &b in bytes {
        h ^= b as u64;
        h = h.wrapping_mul(0x100000001b3);
    }
    h
}

pub fn fnv_combine(h: u64, x: u64) -> u64 {
    let mut h = h;
    for b in x.to_le_bytes() {
        h ^= b as u64;
        h = h.wrapping_mul(0x100000001b3);
    }
    h
}

impl Rng {
    pub fn new(seed: u64) -> Rng {
        let mut x = seed;
        let mut s = [0u64; 4];
        for v in s.iter_mut() {
            x = x.wrapping_add(0x9e3779b97f4a7c15);
            *v = mix64(x);
        }
        Rng { s }
    }
    pub fn next(&mut self) -> u64 {
        let r = self.s[1].wrapping_mul(5).rotate_left(7).wrapping_mul(9);
        let t = self.s[1] << 17;
        self.s[2] ^= self.s[0];
        self.s[3] ^= self.s[1];
        self.s[1] ^= self.s[2];
        self.s[0] ^= self.s[3];
        self.s[2] ^= t;
        self.s[3] = self.s[3].rotate_left(45);
        r
    }
    /// Uniform in 0..n (n > 0).
    pub fn below(&mut self, n: usize) -> usize {
        (self.next() % (n as u64)) as usize
    }
    /// Uniform in lo..=hi.
    pub fn range(&mut self, lo: usize, hi: usize) -> usize {
        lo + self.below(hi - lo + 1)
    }
    pub fn chance(&mut self, num: usize, den: usize) -> bool {
        self.below(den) < num
    }
    pub fn pick<'a, T>(&mut self, v: &'a [T]) -> &'a T {
        &v[self.below(v.len())]
    }
    pub fn shuffle<T>(&mut self, v: &mut [T]) {
        for i in (1..v.len()).rev() {
            let j = self.below(i + 1);
            v.swap(i, j);
        }
    }
    pub fn fork(&mut self) -> Rng {
        Rng::new(self.next())
    }
}
