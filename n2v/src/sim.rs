//! E1: in-process scripted executor.  n2's real code runs; the process boundary
//! (Runner::start/wait) is replaced by this harness, which decides which running
//! command finishes next and applies its effect to the real file system.
use crate::ap::{Project, Rel, RenderOpts};
use crate::dbfmt;
use crate::json::J;
use crate::model::*;
use crate::rng::Rng;
use n2::verif::{DbWriteKind, GraphDump, Harness, LoopSnap, SimFinished, SimTermination};
use std::cell::RefCell;
use std::collections::{BTreeMap, BTreeSet};
use std::path::{Path, PathBuf};
use std::rc::Rc;

#[derive(Clone, Debug)]
pub struct Viol {
    pub prop: &'static str,
    pub sig: String,
    pub detail: String,
}

#[derive(Clone, Debug, PartialEq)]
pub enum Ev {
    Load { epoch: usize },
    Start { step: String },
    Finish { step: String, term: SimTermination },
    DbWrite { kind: DbWriteKind, len: usize, cut: Option<usize> },
}

#[derive(Clone, Debug)]
pub enum Policy {
    Random,
    Fifo,
    Lifo,
    /// Do not finish these steps while anything else is running.
    Hold(BTreeSet<String>),
    /// Prefer finishing steps outside saturated pools last (keeps limits binding).
    KeepFull,
}

#[derive(Clone, Debug)]
pub struct Inv {
    pub targets: Vec<String>,
    pub j: usize,
    pub k: Option<usize>,
    pub adopt: bool,
    pub policy: Policy,
    pub faults: BTreeMap<String, FailMode>,
    /// Forced choices (index into the name-sorted running set) for systematic exploration.
    pub script: Vec<usize>,
    /// Crash plan: (index of the db write counted from 0 in this invocation, bytes that reach the file).
    pub crash: Option<(usize, usize)>,
    pub build_file: Option<String>,
    pub seed: u64,
    /// Beyond the script always take the first option (depth-first enumeration).
    pub systematic: bool,
}

impl Default for Inv {
    fn default() -> Self {
        Inv {
            targets: vec![],
            j: 64,
            k: Some(1),
            adopt: false,
            policy: Policy::Fifo,
            faults: BTreeMap::new(),
            script: vec![],
            crash: None,
            build_file: None,
            seed: 0,
            systematic: false,
        }
    }
}

impl Inv {
    pub fn to_json(&self) -> J {
        let mut o = J::obj();
        o.set("targets", J::strs(self.targets.iter().cloned()));
        o.set("j", J::i(self.j));
        o.set("k", self.k.map(J::i).unwrap_or(J::Null));
        if self.adopt {
            o.set("adopt", J::Bool(true));
        }
        o.set("policy", J::s(format!("{:?}", self.policy)));
        if !self.faults.is_empty() {
            let mut f = J::obj();
            for (k, v) in &self.faults {
                f.set(k, J::s(format!("{:?}", v)));
            }
            o.set("faults", f);
        }
        if !self.script.is_empty() {
            o.set("script", J::Arr(self.script.iter().map(|&x| J::i(x)).collect()));
        }
        if let Some((w, n)) = self.crash {
            o.set("crash", J::Arr(vec![J::i(w), J::i(n)]));
        }
        o
    }
}

#[derive(Clone, Debug, PartialEq)]
pub enum InvResult {
    /// Ok(Some(n)): success, n tasks ran
    Success(usize),
    /// Ok(None): build failed
    Failed,
    /// Err(e)
    Error(String),
    /// invocation abandoned by the harness at a db write (simulated crash)
    Crashed,
    /// harness stopped the invocation (e.g. wait with nothing running)
    HarnessStop(String),
    /// n2 panicked
    Panic(String),
}

#[derive(Clone, Debug)]
pub struct DbW {
    pub kind: DbWriteKind,
    pub bytes: Vec<u8>,
    pub cut: Option<usize>,
}

/// Everything observed during one invocation.
#[derive(Clone, Debug)]
pub struct InvOut {
    pub result: InvResult,
    pub events: Vec<Ev>,
    pub viols: Vec<Viol>,
    /// (chosen index, number of options) at every wait
    pub choices: Vec<(usize, usize)>,
    pub db_writes: Vec<DbW>,
    /// per epoch: started step ids in order
    pub started: Vec<Vec<String>>,
    pub finished_ok: usize,
    pub failed_steps: Vec<String>,
    pub epochs: usize,
    pub max_running: usize,
    pub loop_iters: usize,
    pub progress_updates: usize,
    /// instants where a limit was binding (something queued while j or its pool was full)
    pub binding_instants: usize,
    pub logs: Vec<String>,
    /// state dumps at each load (epoch): per step id -> (hash, deps) loaded
    pub loaded: Vec<BTreeMap<String, (Option<u64>, Vec<String>)>>,
    pub final_states: Option<Vec<(String, u8)>>,
    pub script_diverged: bool,
    pub prediction: Option<Prediction>,
    pub prediction2: Option<Prediction>,
}

/// The world: project directory, model state and current project generation.
pub struct World {
    pub dir: PathBuf,
    pub proj: Project,
    /// Future generations (C17): a Generator effect pops the front.
    pub next_gens: Vec<Project>,
    pub st: ModelState,
    pub ropts: RenderOpts,
    /// manifest-like files written by the harness (name -> text)
    pub texts: BTreeMap<String, String>,
    /// E2 only: steps whose command completed around the moment n2 gave up on a failed
    /// build; whether n2 still recorded them cannot be known from outside
    pub uncertain: BTreeSet<String>,
    /// files that were ever given an epoch timestamp: never stamped again (a second identical stamp
    /// after a content change would be a content change without an mtime change, outside the assumptions)
    pub stamped: BTreeSet<String>,
}

/// Special ticks: a file stamped exactly at, or before, the Unix epoch (reproducible-build tooling
/// does that); to n2 these are timestamps like any other.
pub const TICK_EPOCH: u64 = u64::MAX;
pub const TICK_BEFORE_EPOCH: u64 = u64::MAX - 1;

fn mtime_of(tick: u64) -> std::time::SystemTime {
    if tick == TICK_EPOCH {
        return std::time::UNIX_EPOCH;
    }
    if tick == TICK_BEFORE_EPOCH {
        return std::time::UNIX_EPOCH - std::time::Duration::new(86400, 0);
    }
    std::time::UNIX_EPOCH + std::time::Duration::new(1_600_000_000 + tick, (tick.wrapping_mul(7919) % 1_000_000_000) as u32)
}

pub fn write_real(dir: &Path, name: &str, bytes: &[u8], tick: u64) -> std::io::Result<()> {
    let path = dir.join(name);
    if let Some(parent) = path.parent() {
        if !parent.exists() {
            std::fs::create_dir_all(parent)?;
        }
    }
    std::fs::write(&path, bytes)?;
    let f = std::fs::File::options().write(true).open(&path)?;
    f.set_modified(mtime_of(tick))?;
    Ok(())
}

pub fn touch_real(dir: &Path, name: &str, tick: u64) -> std::io::Result<()> {
    let f = std::fs::File::options().write(true).open(dir.join(name))?;
    f.set_modified(mtime_of(tick))
}

impl World {
    pub fn new(dir: PathBuf, proj: Project) -> World {
        World {
            dir,
            proj,
            next_gens: vec![],
            st: ModelState::default(),
            ropts: RenderOpts::default(),
            texts: BTreeMap::new(),
            uncertain: BTreeSet::new(),
            stamped: BTreeSet::new(),
        }
    }

    /// Write the manifest (and included files) for the current project.
    pub fn write_manifest(&mut self) {
        let files = self.proj.render(&self.ropts);
        for (name, text) in files {
            let t = self.st.tick();
            let c = crate::rng::fnv(text.as_bytes());
            write_real(&self.dir, &name, text.as_bytes(), t).expect("write manifest");
            self.st.disk.insert(name.clone(), FileSt { tick: t, content: c });
            self.texts.insert(name, text);
        }
    }

    pub fn write_source(&mut self, name: &str, content: u64) {
        let t = self.st.tick();
        write_real(&self.dir, name, format!("{:016x}\n", content).as_bytes(), t).expect("write source");
        self.st.disk.insert(name.to_string(), FileSt { tick: t, content });
    }

    /// `touch -d @0 name` (or a day earlier)
    pub fn stamp_epoch(&mut self, name: &str, before: bool) {
        if !self.stamped.insert(name.to_string()) {
            return;
        }
        if let Some(old) = self.st.disk.get(name).copied() {
            let t = if before { TICK_BEFORE_EPOCH } else { TICK_EPOCH };
            touch_real(&self.dir, name, t).expect("touch");
            self.st.disk.insert(name.to_string(), FileSt { tick: t, content: old.content });
        }
    }

    pub fn touch(&mut self, name: &str) {
        if let Some(old) = self.st.disk.get(name).copied() {
            let t = self.st.tick();
            touch_real(&self.dir, name, t).expect("touch");
            self.st.disk.insert(name.to_string(), FileSt { tick: t, content: old.content });
        }
    }

    pub fn delete(&mut self, name: &str) {
        if self.st.disk.remove(name).is_some() {
            let _ = std::fs::remove_file(self.dir.join(name));
        }
    }

    pub fn materialize(&mut self, changes: &[Change]) {
        for c in changes {
            let text = self.texts.get(&c.name).cloned();
            let bytes = match &text {
                Some(t) => t.clone().into_bytes(),
                None => format!("{:016x}\n", c.st.content).into_bytes(),
            };
            write_real(&self.dir, &c.name, &bytes, c.st.tick).expect("materialize");
        }
    }

    /// Fresh sources for every source name of the project.  Some of them are symbolic links to a
    /// file elsewhere: later writes through the name change the target (and its mtime), never the link.
    pub fn init_sources(&mut self, rng: &mut Rng) {
        let srcs = self.proj.sources.clone();
        for (i, s) in srcs.iter().enumerate() {
            if rng.chance(1, 5) {
                let store = self.dir.join(".lnk");
                let _ = std::fs::create_dir_all(&store);
                let target = store.join(format!("t{}", i));
                let _ = std::fs::write(&target, b"");
                let link = self.dir.join(s);
                if let Some(parent) = link.parent() {
                    let _ = std::fs::create_dir_all(parent);
                }
                let _ = std::os::unix::fs::symlink(&target, &link);
            }
            self.write_source(s, rng.next());
        }
    }

    /// Snapshot of everything needed to restore the directory.
    pub fn snapshot(&self) -> Snapshot {
        let db = std::fs::read(self.db_path()).ok();
        Snapshot {
            proj: self.proj.clone(),
            next_gens: self.next_gens.clone(),
            st: self.st.clone(),
            texts: self.texts.clone(),
            db,
            ropts: self.ropts.clone(),
        }
    }

    pub fn db_path(&self) -> PathBuf {
        match &self.proj.builddir {
            Some(b) => self.dir.join(b).join(".n2_db"),
            None => self.dir.join(".n2_db"),
        }
    }

    /// Restore the directory to a snapshot (removes everything else).
    pub fn restore(&mut self, s: &Snapshot) {
        clear_dir(&self.dir);
        self.proj = s.proj.clone();
        self.next_gens = s.next_gens.clone();
        self.st = s.st.clone();
        self.texts = s.texts.clone();
        self.ropts = s.ropts.clone();
        for (name, fs) in &self.st.disk {
            let bytes = match self.texts.get(name) {
                Some(t) => t.clone().into_bytes(),
                None => format!("{:016x}\n", fs.content).into_bytes(),
            };
            write_real(&self.dir, name, &bytes, fs.tick).expect("restore");
        }
        if let Some(db) = &s.db {
            let p = self.db_path();
            if let Some(parent) = p.parent() {
                let _ = std::fs::create_dir_all(parent);
            }
            std::fs::write(p, db).expect("restore db");
        }
    }
}

#[derive(Clone)]
pub struct Snapshot {
    pub proj: Project,
    pub next_gens: Vec<Project>,
    pub st: ModelState,
    pub texts: BTreeMap<String, String>,
    pub db: Option<Vec<u8>>,
    pub ropts: RenderOpts,
}

pub fn clear_dir(dir: &Path) {
    if let Ok(rd) = std::fs::read_dir(dir) {
        for e in rd.flatten() {
            let p = e.path();
            if p.is_dir() {
                let _ = std::fs::remove_dir_all(&p);
            } else {
                let _ = std::fs::remove_file(&p);
            }
        }
    }
}

// ------------------------------------------------------------------------

struct SimState {
    world: World,
    inv: Inv,
    rng: Rng,
    // loaded graph
    loaded_proj: Project,
    rel: Rel,
    graph: GraphDump,
    b2s: Vec<Option<usize>>, // build index -> step index in loaded_proj
    epoch: usize,
    wanted: BTreeSet<usize>,
    // running set: build indices in start order
    running: Vec<usize>,
    started_epoch: BTreeSet<usize>, // step idx
    start_order: Vec<usize>,        // step idx, this epoch
    failed: BTreeSet<usize>,
    done_ok: BTreeSet<usize>,
    failures: usize,
    out: InvOut,
    choice_pos: usize,
    db_write_count: usize,
    db_names: Vec<String>, // db id -> name (from the file at load + path writes)
    expected_rec: BTreeMap<usize, Option<MRecord>>, // step -> expected record after completion
    last_progress: Option<[usize; 6]>,
    last_done_failed: usize,
    idle_iters: usize,
    pending_pstart: Option<usize>,
    pending_pfinish: Option<usize>,
    runs_in_epoch: usize,
    manifest_generated: bool,
    // C01d bookkeeping: finish events sequence numbers
    seq: usize,
    start_seq: BTreeMap<usize, usize>,
    finish_seq: BTreeMap<usize, usize>,
    stop_reason: Option<String>,
}

fn viol(out: &mut InvOut, prop: &'static str, sig: impl Into<String>, detail: impl Into<String>) {
    if out.viols.len() < 20 {
        out.viols.push(Viol { prop, sig: sig.into(), detail: detail.into() });
    }
}

impl SimState {
    fn step_name(&self, si: usize) -> &str {
        &self.loaded_proj.steps[si].id
    }

    /// Closure of the invocation's effective targets in the loaded project
    /// (the manifest itself is built in phase 1 and skipped as a target).
    fn targets_closure(&self) -> BTreeSet<usize> {
        let mf = self.inv.build_file.clone().unwrap_or_else(|| self.loaded_proj.manifest.clone());
        let mf = crate::ap::canon_ref(&mf);
        let mut p = self.loaded_proj.clone();
        p.manifest = mf.clone();
        let t: Vec<String> = p
            .effective_targets(&self.inv.targets)
            .into_iter()
            .filter(|t| !(self.manifest_generated && *t == mf))
            .collect();
        self.rel.closure(&self.loaded_proj, &t)
    }

    fn on_load(&mut self, g: &GraphDump) {
        self.epoch += 1;
        self.out.epochs = self.epoch;
        self.out.events.push(Ev::Load { epoch: self.epoch });
        if self.epoch >= 2 {
            // a reload: anything still running from the previous phase is a bug
            if !self.running.is_empty() {
                viol(&mut self.out, "C17", "reload-with-running", format!("{} commands running at reload", self.running.len()));
            }
        }
        self.loaded_proj = self.world.proj.clone();
        self.rel = Rel::new(&self.loaded_proj);
        self.runs_in_epoch = 0;
        let mf = self.inv.build_file.clone().unwrap_or_else(|| self.loaded_proj.manifest.clone());
        let mf = crate::ap::canon_ref(&mf);
        self.manifest_generated = self.rel.producer.contains_key(&mf);
        // n2 always runs a first phase for the manifest itself (a no-op when
        // the manifest is not generated), then continues on the same state.
        self.wanted = if self.epoch == 1 {
            self.rel.closure(&self.loaded_proj, &[mf.clone()])
        } else {
            self.targets_closure()
        };
        self.graph = g.clone();
        self.b2s = g
            .builds
            .iter()
            .map(|b| b.outs.first().and_then(|o| self.rel.producer.get(o).copied()))
            .collect();
        self.started_epoch.clear();
        self.start_order.clear();
        self.out.started.push(Vec::new());
        self.running.clear();
        self.last_progress = None;
        self.last_done_failed = 0;
        self.idle_iters = 0;
        self.start_seq.clear();
        self.finish_seq.clear();
        // compare the loaded graph with the AP (names, roles, command)
        let mut loaded = BTreeMap::new();
        for (bi, b) in g.builds.iter().enumerate() {
            let Some(si) = self.b2s[bi] else {
                if b.outs.iter().any(|o| o.starts_with("zz_")) {
                    continue; // unrelated noise statement
                }
                viol(&mut self.out, "HARNESS", "unmapped-build", format!("build {} outs {:?}", bi, b.outs));
                continue;
            };
            let s = &self.loaded_proj.steps[si];
            let outs: Vec<String> = s.all_outs().cloned().collect();
            let ins: Vec<String> = s.all_ins().cloned().collect();
            let cmd = if s.phony { None } else { Some(s.cmd(&self.loaded_proj.agent)) };
            let ok = b.outs == outs
                && b.explicit_outs == s.outs.len()
                && b.ins == ins
                && b.explicit_ins == s.ins.len()
                && b.implicit_ins == s.imps.len()
                && b.order_only_ins == s.oos.len()
                && b.cmdline == cmd
                && b.pool == s.pool;
            if b.pool != s.pool && b.outs == outs && b.cmdline == cmd {
                viol(&mut self.out, "C04", "pool-assignment-differs", format!("step {} is declared in pool {:?} but loaded into {:?}", s.id, s.pool, b.pool));
            }
            if !ok {
                let tag = if self.epoch >= 2 { "C17" } else { "HARNESS" };
                viol(
                    &mut self.out,
                    tag,
                    "loaded-graph-differs",
                    format!("epoch {} step {}: loaded {:?} expected outs {:?} ins {:?} cmd {:?}", self.epoch, s.id, b, outs, ins, cmd),
                );
            }
            loaded.insert(s.id.clone(), (b.hash, b.discovered.clone()));
        }
        self.out.loaded.push(loaded);
        // independent view of the db at load time
        let dbp = self.world.db_path();
        let bytes = std::fs::read(&dbp).unwrap_or_default();
        let parsed = dbfmt::parse_db(&bytes);
        self.db_names = dbfmt::path_names(&parsed);
        // attribution check (C07/C08): what n2 loaded for each step must be what the
        // latest applicable complete record in the file says.
        let named = dbfmt::named_builds(&parsed);
        for (si, s) in self.loaded_proj.steps.iter().enumerate() {
            if s.phony {
                continue;
            }
            let want = named.iter().rev().find(|r| {
                !r.outs.is_empty() && r.outs.iter().all(|o| self.rel.producer.get(o) == Some(&si))
            });
            let got = self.out.loaded.last().unwrap().get(&s.id);
            let (gh, gd) = match got {
                Some((h, d)) => (*h, d.clone()),
                None => (None, vec![]),
            };
            match want {
                Some(r) => {
                    if gh != Some(r.hash) || gd != r.deps {
                        viol(
                            &mut self.out,
                            "C08",
                            "loaded-record-differs",
                            format!("step {}: file says hash {:x} deps {:?}; loaded {:?} {:?}", s.id, r.hash, r.deps, gh, gd),
                        );
                    }
                }
                None => {
                    if gh.is_some() {
                        viol(
                            &mut self.out,
                            "C08",
                            "record-misapplied",
                            format!("step {}: no applicable record in file but loaded hash {:?} deps {:?}", s.id, gh, gd),
                        );
                    }
                }
            }
        }
    }

    fn on_start(&mut self, bi: usize) {
        let Some(si) = self.b2s.get(bi).copied().flatten() else {
            viol(&mut self.out, "C18", "start-unmapped", format!("build {} started but is not a step of the project", bi));
            self.running.push(bi);
            return;
        };
        let name = self.step_name(si).to_string();
        self.seq += 1;
        self.start_seq.insert(si, self.seq);
        self.out.events.push(Ev::Start { step: name.clone() });
        self.out.started.last_mut().unwrap().push(name.clone());
        // C01c: at most one start per epoch
        if !self.started_epoch.insert(si) {
            viol(&mut self.out, "C01", "double-start", format!("step {} started twice in epoch {}", name, self.epoch));
        }
        for &prev in &self.start_order {
            if self.rel.ord_anc[prev].contains(&si) {
                let pn = self.step_name(prev).to_string();
                viol(&mut self.out, "C01", "ancestor-started-after-descendant", format!("{} started after {} which depends on it", name, pn));
            }
        }
        self.start_order.push(si);
        // C01a / C05: no ordering ancestor running or failed
        for &a in &self.rel.ord_anc[si] {
            let an = self.step_name(a).to_string();
            if self.running.iter().any(|&rb| self.b2s[rb] == Some(a)) {
                viol(&mut self.out, "C01", "start-while-ancestor-running", format!("{} started while its ordering ancestor {} is running", name, an));
            }
            if self.failed.contains(&a) {
                viol(&mut self.out, "C05", "start-after-ancestor-failed", format!("{} started although its ordering ancestor {} failed", name, an));
                viol(&mut self.out, "C01", "start-after-ancestor-failed", format!("{} started although its ordering ancestor {} failed", name, an));
            }
        }
        // C05: budget
        if let Some(k) = self.inv.k {
            if k >= 1 && self.failures >= k {
                viol(&mut self.out, "C05", "start-after-budget", format!("{} started after {} failures with -k {}", name, self.failures, k));
            }
        }
        // C18: inside the wanted closure
        if !self.wanted.contains(&si) {
            viol(&mut self.out, "C18", "start-outside-closure", format!("{} started but is not needed by targets {:?}", name, self.inv.targets));
        }
        if self.loaded_proj.steps[si].phony {
            viol(&mut self.out, "C19", "phony-started", format!("phony step {} was started as a command", name));
        }
        // output directories exist (C16 clause visible in-process)
        for o in self.loaded_proj.steps[si].all_outs() {
            if let Some(parent) = Path::new(o).parent() {
                if !parent.as_os_str().is_empty() && !self.world.dir.join(parent).is_dir() {
                    viol(&mut self.out, "C16", "outdir-missing", format!("{}: directory of output {} missing at start", name, o));
                }
            }
        }
        self.running.push(bi);
        self.out.max_running = self.out.max_running.max(self.running.len());
        // C04
        if self.running.len() > self.inv.j {
            viol(&mut self.out, "C04", "j-exceeded", format!("{} running with -j {}", self.running.len(), self.inv.j));
        }
        if let Some(pool) = self.loaded_proj.steps[si].pool.clone() {
            let depth = if pool == "console" {
                Some(1)
            } else {
                self.loaded_proj.pools.iter().find(|(n, _)| *n == pool).map(|(_, d)| *d)
            };
            if let Some(d) = depth {
                if d > 0 {
                    let cnt = self
                        .running
                        .iter()
                        .filter(|&&rb| {
                            self.b2s[rb].map(|x| self.loaded_proj.steps[x].pool.as_deref() == Some(pool.as_str())).unwrap_or(false)
                        })
                        .count();
                    if cnt > d {
                        viol(&mut self.out, "C04", "pool-exceeded", format!("{} running in pool {} of depth {}", cnt, pool, d));
                    }
                }
            } else {
                viol(&mut self.out, "C04", "undeclared-pool-started", format!("{} names undeclared pool {} and was started", name, pool));
            }
        }
        self.idle_iters = 0;
        self.pending_pstart = Some(bi);
    }

    fn choose(&mut self) -> usize {
        // options sorted by step name for reproducibility
        let mut opts: Vec<usize> = (0..self.running.len()).collect();
        let names: Vec<String> = self
            .running
            .iter()
            .map(|&b| self.b2s[b].map(|s| self.step_name(s).to_string()).unwrap_or_default())
            .collect();
        opts.sort_by(|&a, &b| names[a].cmp(&names[b]));
        let n = opts.len();
        let pick = if self.choice_pos < self.inv.script.len() {
            let c = self.inv.script[self.choice_pos];
            if c >= n {
                self.out.script_diverged = true;
                0
            } else {
                c
            }
        } else if self.inv.systematic {
            0
        } else {
            match &self.inv.policy {
                Policy::Random => self.rng.below(n),
                Policy::Fifo => opts.iter().position(|&i| i == 0).unwrap(),
                Policy::Lifo => opts.iter().position(|&i| i == self.running.len() - 1).unwrap(),
                Policy::Hold(set) => {
                    let free: Vec<usize> = (0..n).filter(|&k| !set.contains(&names[opts[k]])).collect();
                    if free.is_empty() {
                        self.rng.below(n)
                    } else {
                        free[self.rng.below(free.len())]
                    }
                }
                Policy::KeepFull => {
                    // prefer finishing un-pooled steps; finish pooled ones only when nothing else
                    let free: Vec<usize> = (0..n)
                        .filter(|&k| {
                            self.b2s[self.running[opts[k]]]
                                .map(|s| self.loaded_proj.steps[s].pool.is_none())
                                .unwrap_or(true)
                        })
                        .collect();
                    if free.is_empty() || self.rng.chance(1, 4) {
                        self.rng.below(n)
                    } else {
                        free[self.rng.below(free.len())]
                    }
                }
            }
        };
        self.choice_pos += 1;
        self.out.choices.push((pick, n));
        opts[pick]
    }

    fn on_wait(&mut self) -> SimFinished {
        if self.running.is_empty() {
            viol(&mut self.out, "C06", "wait-with-nothing-running", "n2 would block forever: it waits for a completion while no command is running");
            self.stop_reason = Some("wait with nothing running".into());
            std::panic::panic_any(n2::verif::Abandon("wait with nothing running"));
        }
        let idx = self.choose();
        let bi = self.running.remove(idx);
        let Some(si) = self.b2s[bi] else {
            return SimFinished { build: bi, termination: SimTermination::Success, output: vec![], discovered_deps: None };
        };
        let step = self.loaded_proj.steps[si].clone();
        let fail = self.inv.faults.get(&step.id).copied();
        // Generator effect: switch the world to the next generation
        let mut next_manifest: Option<(Project, Vec<(String, String)>)> = None;
        if step.effect == crate::ap::Effect::Generator && fail.is_none() && !self.world.next_gens.is_empty() {
            let np = self.world.next_gens.remove(0);
            let files = np.render(&self.world.ropts);
            next_manifest = Some((np, files));
        }
        let nm_content = next_manifest.as_ref().map(|(_, f)| crate::rng::fnv(f[0].1.as_bytes()));
        if let Some((np, files)) = next_manifest {
            for (name, text) in &files {
                self.world.texts.insert(name.clone(), text.clone());
            }
            // included files of the new generation are written now as well
            for (name, text) in files.iter().skip(1) {
                let t = self.world.st.tick();
                write_real(&self.world.dir, name, text.as_bytes(), t).expect("write include");
                self.world.st.disk.insert(name.clone(), FileSt { tick: t, content: crate::rng::fnv(text.as_bytes()) });
            }
            self.world.proj = np;
        }
        let changes = apply_effect(&self.loaded_proj, &step, &mut self.world.st, fail, nm_content);
        self.world.materialize(&changes);
        self.seq += 1;
        self.finish_seq.insert(si, self.seq);
        let term = match fail {
            None => SimTermination::Success,
            Some(FailMode::Interrupt) => SimTermination::Interrupted,
            Some(_) => SimTermination::Failure,
        };
        self.out.events.push(Ev::Finish { step: step.id.clone(), term });
        let reported: Option<Vec<String>> = if step.discovers && fail.is_none() { Some(step.extra_reads.clone()) } else { None };
        match term {
            SimTermination::Success => {
                self.done_ok.insert(si);
                self.out.finished_ok += 1;
                let rec = expected_record(&self.loaded_proj, &step, reported.as_deref(), &self.world.st.disk);
                self.expected_rec.insert(si, rec);
            }
            _ => {
                self.failed.insert(si);
                self.failures += 1;
                self.out.failed_steps.push(step.id.clone());
                self.expected_rec.insert(si, None);
            }
        }
        self.idle_iters = 0;
        self.pending_pfinish = Some(bi);
        SimFinished {
            build: bi,
            termination: term,
            output: if fail.is_some() { format!("{} failed\n", step.id).into_bytes() } else { vec![] },
            discovered_deps: reported,
        }
    }

    fn on_loop(&mut self, snap: &LoopSnap, end: bool) {
        self.out.loop_iters += 1;
        if self.pending_pstart.is_some() || self.pending_pfinish.is_some() {
            // progress callbacks must bracket executor events
            if let Some(b) = self.pending_pstart.take() {
                viol(&mut self.out, "C19", "task-started-not-reported", format!("build {} started without task_started", b));
            }
            if let Some(b) = self.pending_pfinish.take() {
                viol(&mut self.out, "C19", "task-finished-not-reported", format!("build {} finished without task_finished", b));
            }
        }
        // histogram of states over non-phony steps
        let mut hist = [0usize; 6];
        let mut n_nonphony_wanted = 0;
        for (bi, &s) in snap.states.iter().enumerate() {
            let phony = self.graph.builds.get(bi).map(|b| b.cmdline.is_none()).unwrap_or(false);
            if s >= 1 && !phony {
                hist[(s - 1) as usize] += 1;
            }
            if let Some(si) = self.b2s.get(bi).copied().flatten() {
                let w = self.wanted.contains(&si);
                if w && !phony {
                    n_nonphony_wanted += 1;
                }
                if s == 0 && w {
                    let d = format!("step {} is needed but n2 does not consider it", self.step_name(si));
                    viol(&mut self.out, "C18", "wanted-step-unknown", d);
                }
                if s != 0 && !w {
                    let d = format!("step {} is considered but not needed by the targets", self.step_name(si));
                    viol(&mut self.out, "C18", "unwanted-step-considered", d);
                }
            }
        }
        if hist != snap.counts {
            viol(&mut self.out, "C19", "counts-differ-from-states", format!("counts {:?} but states histogram {:?}", snap.counts, hist));
        }
        let total: usize = snap.counts.iter().sum();
        if snap.total != total {
            viol(&mut self.out, "C19", "total-not-sum-of-counts", format!("reported total {} but the per-state counts {:?} add up to {}", snap.total, snap.counts, total));
        }
        if total != n_nonphony_wanted {
            viol(&mut self.out, "C19", "total-differs", format!("total {} but {} non-phony wanted steps", total, n_nonphony_wanted));
        }
        if !end {
            if let Some(lp) = self.last_progress.take() {
                if lp != snap.counts {
                    viol(&mut self.out, "C19", "update-differs", format!("progress update {:?} vs scheduler counts {:?}", lp, snap.counts));
                }
            } else {
                viol(&mut self.out, "C19", "no-update", "loop iteration without progress update");
            }
        }
        if snap.counts[3] != self.running.len() {
            viol(&mut self.out, "C19", "running-count-differs", format!("count[running] {} but {} commands executing", snap.counts[3], self.running.len()));
        }
        if snap.counts.iter().any(|&c| c > snap.states.len()) {
            viol(&mut self.out, "C19", "count-wrapped", format!("counts {:?}", snap.counts));
        }
        let df = snap.counts[4] + snap.counts[5];
        if df < self.last_done_failed {
            viol(&mut self.out, "C19", "finished-decreased", format!("done+failed went from {} to {}", self.last_done_failed, df));
        }
        self.last_done_failed = df;
        // C04: n2's own accounting vs the harness's running set
        if snap.runner_running != self.running.len() {
            viol(&mut self.out, "C04", "runner-count-differs", format!("runner.running {} but {} executing", snap.runner_running, self.running.len()));
        }
        let mut any_binding = false;
        for (name, running, depth, queued) in &snap.pools {
            let mine = self
                .running
                .iter()
                .filter(|&&rb| {
                    self.b2s[rb]
                        .map(|x| self.loaded_proj.steps[x].pool.as_deref().unwrap_or("") == name.as_str())
                        .unwrap_or(false)
                })
                .count();
            if *running != mine {
                viol(&mut self.out, "C04", "pool-count-differs", format!("pool {:?}: n2 counts {} running, harness sees {}", name, running, mine));
            }
            if *queued > 0 && ((*depth > 0 && *running >= *depth) || self.running.len() >= self.inv.j) {
                any_binding = true;
            }
        }
        if any_binding {
            self.out.binding_instants += 1;
        }
        // C06: bounded progress
        self.idle_iters += 1;
        let bound = 4 * snap.states.len() + 16;
        if self.idle_iters > bound {
            viol(&mut self.out, "C06", "no-progress", format!("{} scheduler iterations without a start or finish", self.idle_iters));
            self.stop_reason = Some("no progress".into());
            std::panic::panic_any(n2::verif::Abandon("no progress"));
        }
        if end {
            self.runs_in_epoch += 1;
            if self.epoch == 1 && self.runs_in_epoch == 1 {
                // phase 2 continues on the same scheduler state when nothing ran
                let more = self.targets_closure();
                self.wanted.extend(more);
            }
            self.out.final_states = Some(
                snap.states
                    .iter()
                    .enumerate()
                    .filter_map(|(bi, &s)| self.b2s.get(bi).copied().flatten().map(|si| (self.step_name(si).to_string(), s)))
                    .collect(),
            );
        }
    }

    fn on_db_write(&mut self, kind: DbWriteKind, bytes: &[u8]) -> Option<usize> {
        let idx = self.db_write_count;
        self.db_write_count += 1;
        let cut = match self.inv.crash {
            Some((w, n)) if w == idx => Some(n.min(bytes.len())),
            _ => None,
        };
        self.out.events.push(Ev::DbWrite { kind, len: bytes.len(), cut });
        self.out.db_writes.push(DbW { kind, bytes: bytes.to_vec(), cut });
        let complete = cut.is_none() || cut == Some(bytes.len());
        match kind {
            DbWriteKind::Signature => {}
            DbWriteKind::Path => {
                if let Some((dbfmt::Rec::Path(name), n)) = dbfmt::parse_record(bytes) {
                    if n != bytes.len() {
                        viol(&mut self.out, "C08", "path-record-length", format!("path record {:?} has {} trailing bytes", name, bytes.len() - n));
                    }
                    if complete {
                        self.db_names.push(name);
                    }
                } else {
                    viol(&mut self.out, "C08", "path-record-malformed", format!("{:?}", bytes));
                }
            }
            DbWriteKind::Build => match dbfmt::parse_record(bytes) {
                Some((dbfmt::Rec::Build { outs, deps, hash }, n)) if n == bytes.len() => {
                    let name = |id: u32| self.db_names.get(id as usize).cloned().unwrap_or_else(|| format!("<id {}>", id));
                    let outs: Vec<String> = outs.iter().map(|&i| name(i)).collect();
                    let deps: Vec<String> = deps.iter().map(|&i| name(i)).collect();
                    let si = outs.first().and_then(|o| self.rel.producer.get(o).copied());
                    match si {
                        None => viol(&mut self.out, "C08", "record-for-unknown-outs", format!("record names outs {:?}", outs)),
                        Some(si) => {
                            let sname = self.step_name(si).to_string();
                            let exp = if self.inv.adopt {
                                let step = &self.loaded_proj.steps[si];
                                Some(expected_record(&self.loaded_proj, step, None, &self.world.st.disk))
                            } else {
                                self.expected_rec.remove(&si)
                            };
                            match exp {
                                None => {
                                    let tag = if self.failed.contains(&si) { "C05" } else { "C02" };
                                    viol(&mut self.out, tag, "record-without-completion", format!("record written for {} which did not just complete", sname));
                                }
                                Some(None) => {
                                    let tag = if self.failed.contains(&si) { "C05" } else { "C02" };
                                    viol(&mut self.out, tag, "record-not-expected", format!("record written for {} although it failed or a file is missing", sname));
                                }
                                Some(Some(mut rec)) => {
                                    if rec.outs != outs {
                                        viol(&mut self.out, "C08", "record-outs-differ", format!("{}: recorded outs {:?}, expected {:?}", sname, outs, rec.outs));
                                    }
                                    if rec.deps != deps {
                                        viol(&mut self.out, "C09", "record-deps-differ", format!("{}: recorded deps {:?}, expected {:?}", sname, deps, rec.deps));
                                    }
                                    if complete {
                                        rec.n2_hash = hash;
                                        self.world.st.records.push(rec);
                                    }
                                }
                            }
                        }
                    }
                }
                _ => {
                    let big = self.expected_rec.values().any(|r| r.as_ref().map(|r| r.deps.len() >= 65536).unwrap_or(false));
                    if big {
                        viol(&mut self.out, "C08", "dep-count-overflow", format!("a build record with >= 65536 discovered deps is written with a wrapped 16-bit count ({} bytes)", bytes.len()));
                    } else {
                        viol(&mut self.out, "C08", "build-record-malformed", format!("{} bytes", bytes.len()));
                    }
                }
            },
        }
        cut
    }
}

struct Handle(Rc<RefCell<SimState>>);

impl Harness for Handle {
    fn work_new(&mut self, g: &GraphDump) {
        self.0.borrow_mut().on_load(g);
    }
    fn task_start(&mut self, b: usize) {
        self.0.borrow_mut().on_start(b);
    }
    fn task_wait(&mut self) -> SimFinished {
        self.0.borrow_mut().on_wait()
    }
    fn loop_top(&mut self, snap: &LoopSnap) {
        self.0.borrow_mut().on_loop(snap, false);
    }
    fn run_end(&mut self, snap: &LoopSnap) {
        self.0.borrow_mut().on_loop(snap, true);
    }
    fn db_write(&mut self, kind: DbWriteKind, bytes: &[u8]) -> Option<usize> {
        self.0.borrow_mut().on_db_write(kind, bytes)
    }
    fn progress_update(&mut self, counts: [usize; 6]) {
        let mut s = self.0.borrow_mut();
        s.out.progress_updates += 1;
        s.last_progress = Some(counts);
    }
    fn progress_task_started(&mut self, b: usize) {
        let mut s = self.0.borrow_mut();
        if s.pending_pstart.take() != Some(b) {
            viol(&mut s.out, "C19", "task-started-mismatch", format!("task_started({}) does not follow its start", b));
        }
    }
    fn progress_task_finished(&mut self, b: usize, _t: SimTermination) {
        let mut s = self.0.borrow_mut();
        if s.pending_pfinish.take() != Some(b) {
            viol(&mut s.out, "C19", "task-finished-mismatch", format!("task_finished({}) does not follow its completion", b));
        }
    }
    fn progress_log(&mut self, msg: &str) {
        let mut s = self.0.borrow_mut();
        if s.out.logs.len() < 50 {
            s.out.logs.push(msg.to_string());
        }
    }
}

thread_local! {
    pub static LAST_PANIC: RefCell<Option<String>> = const { RefCell::new(None) };
}

/// Panic signature: message without numbers, source file without line.
pub fn panic_sig(m: &str) -> String {
    let (msg, loc) = match m.rsplit_once(" @ ") {
        Some((a, b)) => (a, b),
        None => (m, ""),
    };
    let file = loc.rsplit_once(':').map(|(f, _)| f).unwrap_or(loc);
    let file = file.rsplit('/').next().unwrap_or(file);
    // drop quoted fragments (they carry input-dependent text) and non-ASCII
    let mut cleaned = String::new();
    let mut quote: Option<char> = None;
    for c in msg.chars() {
        match quote {
            Some(q) => {
                if c == q {
                    quote = None;
                }
            }
            None => {
                if c == '\'' || c == '`' || c == '"' {
                    quote = Some(c);
                    cleaned.push('_');
                } else if c.is_ascii() {
                    cleaned.push(c);
                }
            }
        }
    }
    let msg = cleaned.as_str();
    let mut s = String::new();
    let mut last_digit = false;
    for c in msg.chars().take(60) {
        if c.is_ascii_digit() {
            if !last_digit {
                s.push('N');
            }
            last_digit = true;
        } else {
            last_digit = false;
            s.push(c);
        }
    }
    format!("{}@{}", s, file)
}

pub fn install_panic_hook() {
    std::panic::set_hook(Box::new(|info| {
        if info.payload().downcast_ref::<n2::verif::Abandon>().is_some() {
            return;
        }
        let msg = if let Some(s) = info.payload().downcast_ref::<&str>() {
            s.to_string()
        } else if let Some(s) = info.payload().downcast_ref::<String>() {
            s.clone()
        } else {
            "<non-string panic>".to_string()
        };
        let loc = info.location().map(|l| format!("{}:{}", l.file(), l.line())).unwrap_or_default();
        if msg.starts_with("unsafe precondition") || std::env::var_os("N2V_PANIC_VERBOSE").is_some() {
            // the process is about to abort: this is the only chance to say why
            eprintln!("NON-UNWINDING PANIC: {} @ {}", msg, loc);
        }
        LAST_PANIC.with(|p| *p.borrow_mut() = Some(format!("{} @ {}", msg, loc)));
    }));
}

/// Run one n2 invocation in `world` (cwd is switched to the project directory).
pub fn run_inv(world: World, inv: &Inv) -> (World, InvOut) {
    std::env::set_current_dir(&world.dir).expect("chdir");
    let rel = Rel::new(&world.proj);
    // wanted closure for phase 1 is computed from the loaded project at load
    // time; we precompute it here for the current project and recompute if a
    // reload happens (see `wanted_for`).
    let out = InvOut {
        result: InvResult::Failed,
        events: vec![],
        viols: vec![],
        choices: vec![],
        db_writes: vec![],
        started: vec![],
        finished_ok: 0,
        failed_steps: vec![],
        epochs: 0,
        max_running: 0,
        loop_iters: 0,
        progress_updates: 0,
        binding_instants: 0,
        logs: vec![],
        loaded: vec![],
        final_states: None,
        script_diverged: false,
        prediction: None,
        prediction2: None,
    };
    let loaded_proj = world.proj.clone();
    let wanted = wanted_for(&world.proj, &rel, inv);
    let state = SimState {
        world,
        inv: inv.clone(),
        rng: Rng::new(inv.seed ^ 0x5151),
        loaded_proj,
        rel,
        graph: GraphDump::default(),
        b2s: vec![],
        epoch: 0,
        wanted,
        running: vec![],
        started_epoch: BTreeSet::new(),
        start_order: vec![],
        failed: BTreeSet::new(),
        done_ok: BTreeSet::new(),
        failures: 0,
        out,
        choice_pos: 0,
        db_write_count: 0,
        db_names: vec![],
        expected_rec: BTreeMap::new(),
        last_progress: None,
        last_done_failed: 0,
        idle_iters: 0,
        pending_pstart: None,
        pending_pfinish: None,
        runs_in_epoch: 0,
        manifest_generated: false,
        seq: 0,
        start_seq: BTreeMap::new(),
        finish_seq: BTreeMap::new(),
        stop_reason: None,
    };
    let rc = Rc::new(RefCell::new(state));
    n2::verif::install(Box::new(Handle(rc.clone())));
    LAST_PANIC.with(|p| *p.borrow_mut() = None);
    let bf = inv.build_file.clone();
    let targets = inv.targets.clone();
    let (j, k, adopt) = (inv.j, inv.k, inv.adopt);
    let res = std::panic::catch_unwind(std::panic::AssertUnwindSafe(|| {
        n2::run::verif_build(bf, targets, j, k, adopt, false)
    }));
    drop(n2::verif::uninstall());
    let state = Rc::try_unwrap(rc).ok().expect("sim state still shared").into_inner();
    let SimState { world, mut out, stop_reason, expected_rec, failed, loaded_proj, inv: sinv, wanted, .. } = state;
    let result = match res {
        Ok(Ok(Some(n))) => InvResult::Success(n),
        Ok(Ok(None)) => InvResult::Failed,
        Ok(Err(e)) => InvResult::Error(format!("{}", e)),
        Err(payload) => {
            if payload.downcast_ref::<n2::verif::Abandon>().is_some() {
                match stop_reason {
                    Some(r) => InvResult::HarnessStop(r),
                    None => InvResult::Crashed,
                }
            } else {
                InvResult::Panic(LAST_PANIC.with(|p| p.borrow().clone()).unwrap_or_else(|| "panic".into()))
            }
        }
    };
    out.result = result.clone();
    // end-of-invocation monitors
    match &result {
        InvResult::Success(n) => {
            if !failed.is_empty() {
                let d = format!("exit status success although {:?} failed", out.failed_steps);
                viol(&mut out, "C05", "success-with-failed-command", d);
            }
            if *n != out.finished_ok {
                let d = format!("reported {} tasks, {} commands completed successfully", n, out.finished_ok);
                viol(&mut out, "C19", "ran-n-differs", d);
            }
            if let Some(fs) = &out.final_states {
                for (name, s) in fs.clone() {
                    let si = loaded_proj.step_index(&name);
                    if let Some(si) = si {
                        if wanted.contains(&si) && s != 5 {
                            viol(&mut out, "C06", "wanted-step-not-done", format!("success reported but step {} ended in state {}", name, s));
                        }
                    }
                }
            }
        }
        InvResult::Failed => {
            if failed.is_empty() {
                viol(&mut out, "C05", "failure-without-failed-command", "exit status failure although no command failed or was interrupted");
            }
        }
        InvResult::Panic(m) => {
            viol(&mut out, "C06", format!("panic:{}", panic_sig(m)), format!("n2 panicked: {}", m));
        }
        _ => {}
    }
    if matches!(result, InvResult::Success(_) | InvResult::Failed) && sinv.crash.is_none() {
        for (si, r) in &expected_rec {
            if r.is_some() {
                let name = loaded_proj.steps.get(*si).map(|s| s.id.clone()).unwrap_or_default();
                viol(&mut out, "C03", "record-not-written", format!("step {} completed with all files present but no record was written", name));
            }
        }
    }
    (world, out)
}

/// Steps wanted by an invocation of `proj`: closure of the effective targets,
/// plus the closure of the manifest itself when it is a generated file.
pub fn wanted_for(proj: &Project, rel: &Rel, inv: &Inv) -> BTreeSet<usize> {
    let mut t = proj.effective_targets(&inv.targets);
    let mf = inv.build_file.clone().unwrap_or_else(|| proj.manifest.clone());
    if rel.producer.contains_key(&mf) {
        t.push(mf);
    }
    rel.closure(proj, &t)
}

impl InvOut {
    pub fn trace_json(&self) -> J {
        let mut evs = Vec::new();
        for e in self.events.iter().take(200) {
            evs.push(J::s(match e {
                Ev::Load { epoch } => format!("load#{}", epoch),
                Ev::Start { step } => format!("start {}", step),
                Ev::Finish { step, term } => format!("finish {} {:?}", step, term),
                Ev::DbWrite { kind, len, cut } => match cut {
                    Some(c) => format!("dbwrite {:?} {}B cut@{}", kind, len, c),
                    None => format!("dbwrite {:?} {}B", kind, len),
                },
            }));
        }
        J::obj()
            .with("result", J::s(format!("{:?}", self.result)))
            .with("events", J::Arr(evs))
    }

    /// Hash of the externally visible event sequence (starts and finishes).
    pub fn interleaving_hash(&self) -> u64 {
        let mut h = crate::rng::fnv(b"il");
        for e in &self.events {
            match e {
                Ev::Start { step } => {
                    h = crate::rng::fnv_combine(h, crate::rng::fnv(step.as_bytes()) ^ 1);
                }
                Ev::Finish { step, term } => {
                    h = crate::rng::fnv_combine(h, crate::rng::fnv(step.as_bytes()) ^ (2 + *term as u64));
                }
                Ev::Load { epoch } => h = crate::rng::fnv_combine(h, *epoch as u64),
                _ => {}
            }
        }
        h
    }
}
