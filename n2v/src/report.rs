//! Shard report: what one worker process observed.
use crate::json::J;
use std::collections::{BTreeMap, BTreeSet};

#[derive(Default)]
pub struct Report {
    pub prop: String,
    pub evaluations: u64,
    pub nontrivial: BTreeSet<u64>,
    pub interleavings: BTreeSet<u64>,
    pub counters: BTreeMap<String, u64>,
    pub samples: Vec<J>,
    pub violations: Vec<J>,
    pub known_hits: BTreeMap<String, u64>,
    pub inconclusive: Vec<String>,
    pub other_prop_viols: BTreeMap<String, u64>,
    pub cases: u64,
    pub max_samples: usize,
    pub viol_sigs: BTreeMap<String, u64>,
}

impl Report {
    pub fn new(prop: &str) -> Report {
        Report { prop: prop.to_string(), max_samples: 3, ..Default::default() }
    }
    pub fn count(&mut self, k: &str, n: u64) {
        *self.counters.entry(k.to_string()).or_insert(0) += n;
    }
    pub fn max(&mut self, k: &str, n: u64) {
        let e = self.counters.entry(k.to_string()).or_insert(0);
        if n > *e {
            *e = n;
        }
    }
    pub fn sample(&mut self, j: impl FnOnce() -> J) {
        if self.samples.len() < self.max_samples {
            self.samples.push(j());
        }
    }
    /// Record a violation of this report's property.
    pub fn violation(&mut self, sig: &str, detail: &str, case: J) {
        let n = self.viol_sigs.entry(sig.to_string()).or_insert(0);
        *n += 1;
        if *n <= 2 && self.violations.len() < 40 {
            self.violations.push(
                J::obj()
                    .with("property", J::s(&self.prop))
                    .with("signature", J::s(sig))
                    .with("detail", J::s(detail))
                    .with("case", case),
            );
        }
        self.count("violations_total", 1);
    }
    pub fn to_json(&self) -> J {
        let mut c = J::obj();
        for (k, v) in &self.counters {
            c.set(k, J::i(*v));
        }
        let mut o = J::obj();
        for (k, v) in &self.other_prop_viols {
            o.set(k, J::i(*v));
        }
        J::obj()
            .with("property", J::s(&self.prop))
            .with("evaluations", J::i(self.evaluations))
            .with("cases", J::i(self.cases))
            .with(
                "nontrivial",
                J::Arr(self.nontrivial.iter().map(|h| J::s(format!("{:016x}", h))).collect()),
            )
            .with(
                "interleavings",
                J::Arr(self.interleavings.iter().map(|h| J::s(format!("{:016x}", h))).collect()),
            )
            .with("counters", c)
            .with("samples", J::Arr(self.samples.clone()))
            .with("violations", J::Arr(self.violations.clone()))
            .with("inconclusive", J::strs(self.inconclusive.iter().cloned()))
            .with("other_property_violations_seen", o)
            .with(
                "violation_signatures",
                J::Obj(self.viol_sigs.iter().map(|(k, v)| (k.clone(), J::i(*v))).collect()),
            )
    }
}
