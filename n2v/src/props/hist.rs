//! History properties: C02, C03, C07, C08, C09, C17 (engine E1 + reference model).
use super::{case_loop, predict_inv, PredInv};
use crate::ap::*;
use crate::json::J;
use crate::model::*;
use crate::report::Report;
use crate::rng::{fnv, fnv_combine, Rng};
use crate::sim::*;
use crate::Ctx;
use std::collections::BTreeSet;

pub fn run(ctx: &Ctx, rep: &mut Report) {
    let dir = ctx.scratch.join("w");
    std::fs::create_dir_all(&dir).unwrap();
    case_loop(ctx, rep, |case, seed, rep| match ctx.prop.as_str() {
        "C07" if case % 5 == 4 => aligned_case(ctx, &dir, case, seed, rep),
        "C07" => crash_case(ctx, &dir, case, seed, rep),
        "C08" if case % 8 == 3 => shapes_case(ctx, &dir, case, seed, rep),
        _ => history_case(ctx, &dir, case, seed, rep),
    });
}

fn accepts(prop: &str, tag: &str) -> bool {
    match prop {
        "C07" => matches!(tag, "C07" | "C08"),
        p => p == tag,
    }
}

fn hist_opts(prop: &str, rng: &mut Rng, thorough: bool) -> GenOpts {
    let mut o = GenOpts::default();
    o.max_steps = if thorough { 10 } else { 8 };
    o.effects = true;
    o.discovers = matches!(prop, "C09" | "C02" | "C03" | "C07" | "C08") || (prop == "C17" && rng.chance(1, 2));
    if prop == "C09" {
        o.phony = rng.chance(1, 2);
    }
    o.defaults = rng.chance(1, if prop == "C17" { 2 } else { 5 });
    o
}

/// A single history operation, for the replay/evidence record.
fn op(name: &str, arg: impl Into<String>) -> J {
    J::Arr(vec![J::s(name), J::s(arg.into())])
}

struct Hist {
    ops: Vec<J>,
    builds: usize,
    edits_between: bool,
    sig: u64,
}

fn sorted(v: &[String]) -> Vec<String> {
    let mut v = v.to_vec();
    v.sort();
    v
}

/// Compare one invocation with the model and report per property.
/// Returns false when the history should stop (state no longer meaningful).
#[allow(clippy::too_many_arguments)]
fn judge_inv(
    ctx: &Ctx,
    rep: &mut Report,
    case: u64,
    hist: &Hist,
    proj_before: &Project,
    pred: &PredInv,
    inv: &Inv,
    out: &InvOut,
    world: &World,
    expect_noop: bool,
) -> bool {
    let prop: &str = if ctx.prop == "C13" { if case % 3 == 0 { "C17" } else { "C09" } } else if ctx.prop == "C15" { "C09" } else { &ctx.prop };
    let mk_case = |out: &InvOut| -> J {
        J::obj()
            .with("case", J::i(case))
            .with("project_at_invocation", proj_before.to_json())
            .with("history", J::Arr(hist.ops.clone()))
            .with("invocation", inv.to_json())
            .with("trace", out.trace_json())
    };
    let mut stop = false;
    for v in &out.viols {
        if accepts(prop, v.prop) {
            rep.violation(&v.sig, &v.detail, mk_case(out));
            stop = true;
        } else {
            *rep.other_prop_viols.entry(format!("{}:{}", v.prop, v.sig)).or_insert(0) += 1;
        }
    }
    rep.count("events", out.events.len() as u64);
    rep.count("invocations", 1);
    rep.interleavings.insert(out.interleaving_hash());
    if out.epochs >= 2 {
        rep.count("invocations_with_reload", 1);
    }
    if stop {
        return false;
    }
    match &out.result {
        InvResult::Panic(m) => {
            rep.violation(&format!("panic:{}", panic_sig(m)), &format!("n2 panicked: {}", m), mk_case(out));
            return false;
        }
        InvResult::HarnessStop(r) => {
            rep.inconclusive.push(format!("case {}: harness stop {}", case, r));
            return false;
        }
        _ => {}
    }
    let exp_err = pred.error();
    let got: Vec<Vec<String>> = out.started.iter().map(|v| sorted(v)).collect();
    let exp = pred.expected_runs(proj_before);
    if let Some(e) = &exp_err {
        rep.count("invocations_with_expected_error", 1);
        match &out.result {
            InvResult::Error(m) => {
                let key = e.split_whitespace().last().unwrap_or("");
                if !(m.contains(key) || (e.starts_with("input") && m.contains("missing"))) {
                    rep.inconclusive.push(format!("case {}: expected error {:?}, got {:?}", case, e, m));
                }
            }
            other => {
                // a planned failure can end the build before the missing input is noticed
                if matches!(prop, "C02" | "C05") && inv.faults.is_empty() {
                    rep.violation("expected-error-missing", &format!("model expects error {:?} but result {:?}", e, other), mk_case(out));
                }
            }
        }
        // run sets are only an upper bound here
        return false;
    }
    // exactness of the prediction
    let interrupted = pred.p1.interrupted || pred.p2.as_ref().map(|(_, p)| p.interrupted).unwrap_or(false);
    let nfail_pred = pred.p1.failed.len() + pred.p2.as_ref().map(|(_, p)| p.failed.len()).unwrap_or(0);
    let exact = !interrupted && (nfail_pred == 0 || inv.k.map(|k| nfail_pred < k).unwrap_or(true));
    let flat = |v: &Vec<Vec<String>>| -> BTreeSet<String> { v.iter().flatten().cloned().collect() };
    let (gs, es) = (flat(&got), flat(&exp));
    let over: Vec<&String> = gs.difference(&es).collect();
    let under: Vec<&String> = es.difference(&gs).collect();
    if !over.is_empty() {
        // over-building: C03 (and its restrictions C08c, C09)
        if matches!(prop, "C03" | "C08" | "C09" | "C17" | "C07") {
            let why = format!("started {:?} but the model predicts {:?}; steps {:?} were run although unchanged", got, exp, over);
            rep.violation("ran-unchanged-step", &why, mk_case(out));
        }
    }
    if exact && !under.is_empty() {
        // under-building: C02 (and C09 for dependency edits, C17 for generations, C07 after crashes)
        if matches!(prop, "C02" | "C09" | "C17" | "C07" | "C08") {
            let reasons: Vec<String> = under
                .iter()
                .map(|s| {
                    let w = proj_before
                        .step_index(s)
                        .and_then(|i| pred.p1.why.get(&i).or_else(|| pred.p2.as_ref().and_then(|(_, p)| p.why.get(&i))));
                    format!("{}: {:?}", s, w)
                })
                .collect();
            rep.violation(
                "skipped-dirty-step",
                &format!("started {:?} but the model predicts {:?}; not run although dirty: {:?}", got, exp, reasons),
                mk_case(out),
            );
        }
    }
    if exact && got != exp && over.is_empty() && under.is_empty() && matches!(prop, "C17") {
        rep.violation("epoch-split-differs", &format!("per-phase started {:?} vs predicted {:?}", got, exp), mk_case(out));
    }
    if exact && pred.two_phase && (pred.reload != (out.epochs >= 2)) && matches!(prop, "C17") {
        rep.violation("reload-differs", &format!("model expects reload={} but n2 loaded {} time(s)", pred.reload, out.epochs), mk_case(out));
    }
    // result status
    match &out.result {
        InvResult::Success(n) => {
            if nfail_pred > 0 && exact && matches!(prop, "C02" | "C05") {
                rep.violation("success-with-failure", "success although a command was planned to fail", mk_case(out));
            }
            if expect_noop && (*n != 0 || !gs.is_empty()) && matches!(prop, "C03" | "C07" | "C08" | "C09" | "C17") {
                rep.violation("repeat-build-not-noop", &format!("invocation right after a successful one started {:?} and reported {} tasks", got, n), mk_case(out));
            }
            // C02: contents of everything in the closure equal a clean build
            if matches!(prop, "C02" | "C09" | "C17" | "C07") {
                let p = &world.proj;
                let rel = Rel::new(p);
                if let Some(clean) = clean_contents(p, &rel, &world.st.disk) {
                    // closure of the requested targets (the manifest's own closure is not requested)
                    // and, named as a target, is by design "already built" in phase 1 against the old text; DESIGN.md section 9)
                    let tg: Vec<String> = p.effective_targets(&inv.targets).into_iter().filter(|t| *t != p.manifest).collect();
                    let wanted = rel.closure(p, &tg);
                    for &si in &wanted {
                        let s = &p.steps[si];
                        if s.phony || s.effect == Effect::Generator {
                            continue;
                        }
                        let written = match &s.effect {
                            Effect::NoOutput => 0,
                            Effect::SomeOutputs(k) => *k,
                            _ => usize::MAX,
                        };
                        for (oi, o) in s.all_outs().enumerate() {
                            // outputs the command never writes keep whatever an earlier
                            // (possibly failed) run left there; nothing to compare
                            if oi >= written {
                                continue;
                            }
                            let want = clean.get(o).copied().flatten();
                            let have = world.st.disk.get(o).map(|f| f.content);
                            rep.count("outputs_compared", 1);
                            if want != have {
                                let tag = if prop == "C02" || prop == "C07" || prop == "C17" { "stale-output" } else { "stale-output-deps" };
                                rep.violation(
                                    tag,
                                    &format!("after a successful build output {} of {} has content {:?}, a clean build gives {:?}", o, s.id, have, want),
                                    mk_case(out),
                                );
                            }
                        }
                    }
                }
            }
        }
        InvResult::Failed => {
            if nfail_pred == 0 && matches!(prop, "C02" | "C03") {
                rep.violation("failed-without-fault", "build failed although no command was planned to fail", mk_case(out));
            }
        }
        InvResult::Error(e) => {
            if matches!(prop, "C02" | "C03" | "C09" | "C07" | "C08" | "C17") {
                let sig = if e.contains(".n2_db") { "db-load-error" } else { "unexpected-error" };
                rep.violation(sig, &format!("unexpected error: {}", e), mk_case(out));
            }
            return false;
        }
        _ => {}
    }
    true
}

fn pick_outs(p: &Project, rng: &mut Rng) -> Vec<String> {
    let outs: Vec<String> = p.steps.iter().flat_map(|s| s.outs.iter().cloned()).collect();
    if outs.is_empty() || rng.chance(2, 3) {
        return vec![];
    }
    let k = rng.range(1, 3.min(outs.len()));
    (0..k).map(|_| rng.pick(&outs).clone()).collect()
}

fn random_inv(rng: &mut Rng, p: &Project, faults_ok: bool) -> Inv {
    let mut inv = Inv::default();
    inv.seed = rng.next();
    inv.j = *rng.pick(&[1usize, 2, 4, 64]);
    inv.k = *rng.pick(&[None, Some(1usize), Some(3), Some(100)]);
    inv.policy = match rng.below(3) {
        0 => Policy::Fifo,
        1 => Policy::Lifo,
        _ => Policy::Random,
    };
    inv.targets = pick_outs(p, rng);
    if faults_ok && rng.chance(1, 5) {
        let np: Vec<String> = p.steps.iter().filter(|s| !s.phony).map(|s| s.id.clone()).collect();
        if !np.is_empty() {
            let s = rng.pick(&np).clone();
            inv.faults.insert(s, *rng.pick(&[FailMode::Nothing, FailMode::All, FailMode::Some]));
        }
    }
    inv
}

/// Apply one random edit; returns its description or None if nothing applicable.
pub fn random_edit(prop: &str, rng: &mut Rng, world: &mut World) -> Option<J> {
    let srcs = world.proj.sources.clone();
    let real_steps: Vec<usize> = (0..world.proj.steps.len())
        .filter(|&i| !world.proj.steps[i].phony && world.proj.steps[i].effect != Effect::Generator)
        .collect();
    // outputs their command actually writes (hand-made files in place of
    // outputs that are never written are outside what a clean build defines)
    let outs: Vec<String> = real_steps
        .iter()
        .flat_map(|&i| {
            let s = &world.proj.steps[i];
            let n = match &s.effect {
                Effect::NoOutput => 0,
                Effect::SomeOutputs(k) => *k,
                _ => usize::MAX,
            };
            s.all_outs().take(n).cloned().collect::<Vec<_>>()
        })
        .collect();
    let domain_c03 = prop == "C03";
    let choice = match prop {
        "C17" => *rng.pick(&[0usize, 0, 1, 3, 4, 5, 13, 13, 13]),
        "C09" => *rng.pick(&[0usize, 1, 8, 8, 8, 9, 9, 3, 5, 12, 2]),
        "C08" => *rng.pick(&[10usize, 10, 10, 10, 0, 11, 11, 6, 14, 14, 15, 16, 8, 8, 9]),
        _ => rng.below(13),
    };
    match choice {
        0 => {
            let s = rng.pick(&srcs).clone();
            if !world.st.disk.contains_key(&s) && domain_c03 {
                return None;
            }
            world.write_source(&s, rng.next());
            Some(op("modify-source", s))
        }
        1 => {
            let s = rng.pick(&srcs).clone();
            if !world.st.disk.contains_key(&s) {
                return None;
            }
            if rng.chance(1, 6) {
                let before = rng.chance(1, 2);
                world.stamp_epoch(&s, before);
                return Some(op(if before { "stamp-source-before-epoch" } else { "stamp-source-at-epoch" }, s));
            }
            world.touch(&s);
            Some(op("touch-source", s))
        }
        2 => {
            if domain_c03 || prop == "C08" {
                return None;
            }
            let mut s = rng.pick(&srcs).clone();
            if prop == "C09" && rng.chance(1, 2) {
                // a plain file that a command reported and that is also one of its order-only inputs
                let both: Vec<String> = world.proj.steps.iter().flat_map(|st| st.extra_reads.iter().filter(|f| st.oos.contains(f)).cloned().collect::<Vec<_>>()).filter(|f| srcs.contains(f)).collect();
                if !both.is_empty() {
                    s = rng.pick(&both).clone();
                }
            }
            if s.ends_with(".in") {
                return None;
            }
            world.delete(&s);
            Some(op("delete-source", s))
        }
        3 if !outs.is_empty() => {
            let o = rng.pick(&outs).clone();
            world.delete(&o);
            Some(op("delete-output", o))
        }
        4 if !outs.is_empty() => {
            let o = rng.pick(&outs).clone();
            if !world.st.disk.contains_key(&o) {
                return None;
            }
            if rng.chance(1, 6) {
                world.stamp_epoch(&o, false);
                return Some(op("stamp-output-at-epoch", o));
            }
            world.touch(&o);
            Some(op("touch-output", o))
        }
        5 if !outs.is_empty() => {
            let o = rng.pick(&outs).clone();
            world.write_source(&o, rng.next());
            Some(op("overwrite-output", o))
        }
        6 if !real_steps.is_empty() => {
            let i = *rng.pick(&real_steps);
            world.proj.steps[i].ver += 1;
            world.write_manifest();
            Some(op("change-command", world.proj.steps[i].id.clone()))
        }
        7 if !real_steps.is_empty() => {
            let i = *rng.pick(&real_steps);
            let s = &mut world.proj.steps[i];
            let desc;
            match &s.rsp {
                None => {
                    s.rsp = Some((format!("{}.rsp", s.id), format!("content {}", rng.below(100))));
                    desc = "add-rspfile";
                }
                Some((p, _)) => {
                    s.rsp = Some((p.clone(), format!("content {}", rng.below(100))));
                    desc = "change-rspfile-content";
                }
            }
            let id = s.id.clone();
            world.write_manifest();
            Some(op(desc, id))
        }
        8 if !real_steps.is_empty() => {
            // change what the command reads/reports next time
            let cands: Vec<usize> = real_steps.iter().copied().filter(|&i| world.proj.steps[i].discovers).collect();
            if cands.is_empty() {
                return None;
            }
            let i = *rng.pick(&cands);
            let allow_missing = prop == "C09" || prop == "C02";
            // A command's include set is a function of what it reads: the change
            // comes with an edit of one of its source inputs (or of a header it
            // currently includes).
            let rel = Rel::new(&world.proj);
            let mut carriers: Vec<String> = world.proj.steps[i]
                .dirtying()
                .filter(|f| !rel.producer.contains_key(*f) && world.st.disk.contains_key(*f))
                .cloned()
                .collect();
            for r in &world.proj.steps[i].extra_reads {
                let c = canon_ref(r);
                if !rel.producer.contains_key(&c) && world.st.disk.contains_key(&c) && !carriers.contains(&c) {
                    carriers.push(c);
                }
            }
            if carriers.is_empty() {
                return None;
            }
            let carrier = rng.pick(&carriers).clone();
            world.write_source(&carrier, rng.next());
            let s = &mut world.proj.steps[i];
            let mut new = Vec::new();
            let k = rng.range(0, 4);
            for _ in 0..k {
                let h = format!("h{}.h", rng.below(if allow_missing { 6 } else { 4 }));
                // several spellings of one file, duplicates, overlap with declared inputs
                let spelled = match rng.below(if prop == "C09" { 7 } else { 5 }) {
                    0 => format!("./{}", h),
                    1 => format!("inc/../{}", h),
                    2 if !s.ins.is_empty() => s.ins[0].clone(),
                    3 | 5 | 6 if !s.oos.is_empty() && world.st.disk.contains_key(&s.oos[0]) && !rel.producer.contains_key(&s.oos[0]) => s.oos[0].clone(),
                    _ => h,
                };
                new.push(spelled);
            }
            s.extra_reads = new.clone();
            Some(op("change-includes", format!("{} -> {:?} (with edit of {})", s.id, new, carrier)))
        }
        9 => {
            // header edit / delete / create
            let h = format!("h{}.h", rng.below(if matches!(prop, "C03" | "C08") { 4 } else { 6 }));
            if world.st.disk.contains_key(&h) && rng.chance(1, 4) && !matches!(prop, "C03" | "C08") {
                world.delete(&h);
                Some(op("delete-header", h))
            } else {
                world.write_source(&h, rng.next());
                Some(op("write-header", h))
            }
        }
        10 => {
            // semantics-preserving manifest rewrite
            let r = &mut world.ropts;
            let mut what = Vec::new();
            if rng.chance(1, 2) {
                r.perm_seed = rng.next() | 1;
                what.push("reorder");
            }
            if rng.chance(1, 2) {
                r.noise = !r.noise;
                what.push("noise");
            }
            if rng.chance(1, 3) {
                r.rule_prefix = format!("x{}_", rng.below(100));
                what.push("rename-rules");
            }
            if rng.chance(1, 3) {
                r.via_vars = !r.via_vars;
                what.push("cmd-via-variable");
            }
            if rng.chance(1, 3) {
                r.split_include = if r.split_include.is_some() { None } else { Some("rules.ninja".into()) };
                what.push("include-split");
            }
            if rng.chance(1, 3) {
                r.spell_seed = rng.next() | 1;
                what.push("respell-paths");
            }
            if rng.chance(1, 4) {
                r.shadow_seed = if r.shadow_seed == 0 { rng.next() | 1 } else { 0 };
                what.push("paths-via-block-variables");
            }
            if rng.chance(1, 4) {
                r.sub_builddir = !r.sub_builddir;
                what.push("subninja-with-private-builddir");
            }
            if what.is_empty() {
                r.perm_seed = rng.next() | 1;
                what.push("reorder");
            }
            world.write_manifest();
            Some(op("rewrite-manifest", what.join("+")))
        }
        11 => {
            // add a leaf step / remove a leaf step / add or remove an edge
            match rng.below(4) {
                0 => {
                    let n = world.proj.steps.len();
                    let id = format!("n{}", n + rng.below(1000) * 100);
                    if world.proj.step_index(&id).is_some() {
                        return None;
                    }
                    let mut pool: Vec<String> = outs.clone();
                    pool.extend(srcs.iter().filter(|s| world.st.disk.contains_key(*s) && !s.starts_with("own")).cloned());
                    if pool.is_empty() {
                        return None;
                    }
                    let i1 = rng.pick(&pool).clone();
                    world.proj.steps.push(Step {
                        id: id.clone(),
                        outs: vec![format!("o_{}", id)],
                        iouts: vec![],
                        ins: vec![i1],
                        imps: vec![],
                        oos: vec![],
                        vals: vec![],
                        phony: false,
                        ver: 1,
                        pool: None,
                        rsp: None,
                        depfile: None,
                        msvc: false,
                        desc: None,
                        effect: Effect::Write,
                        extra_reads: vec![],
                        discovers: false,
                    });
                    world.write_manifest();
                    Some(op("add-step", id))
                }
                1 => {
                    // remove a step nobody consumes
                    let rel = Rel::new(&world.proj);
                    let cands: Vec<usize> = real_steps
                        .iter()
                        .copied()
                        .filter(|&i| {
                            !(0..world.proj.steps.len()).any(|j| rel.all_pred[j].contains(&i))
                                && !world.proj.defaults.iter().flatten().any(|d| world.proj.steps[i].all_outs().any(|o| o == d))
                        })
                        .collect();
                    if cands.is_empty() || world.proj.steps.len() <= 2 {
                        return None;
                    }
                    let i = *rng.pick(&cands);
                    let s = world.proj.steps.remove(i);
                    world.write_manifest();
                    Some(op("remove-step", s.id))
                }
                2 => {
                    // add an edge from an existing source
                    if real_steps.is_empty() {
                        return None;
                    }
                    let i = *rng.pick(&real_steps);
                    let avail: Vec<String> = srcs.iter().filter(|s| world.st.disk.contains_key(*s) && !s.ends_with(".h") && !s.starts_with("own")).cloned().collect();
                    if avail.is_empty() {
                        return None;
                    }
                    let f = rng.pick(&avail).clone();
                    let s = &mut world.proj.steps[i];
                    if s.all_ins().any(|x| *x == f) {
                        return None;
                    }
                    let role = rng.below(3);
                    match role {
                        0 => s.ins.push(f.clone()),
                        1 => s.imps.push(f.clone()),
                        _ => s.oos.push(f.clone()),
                    }
                    let id = s.id.clone();
                    world.write_manifest();
                    Some(op("add-edge", format!("{} {} role {}", id, f, role)))
                }
                _ => {
                    if real_steps.is_empty() {
                        return None;
                    }
                    let i = *rng.pick(&real_steps);
                    let s = &mut world.proj.steps[i];
                    let desc;
                    // an order-only edge to a generated file that the command also reports as a
                    // dependency is what gives that dependency its ordering path: keep it
                    let mut reported: Vec<String> = s.extra_reads.iter().map(|r| canon_ref(r)).collect();
                    for r in &world.st.records {
                        if r.outs.iter().any(|o| s.all_outs().any(|x| x == o)) {
                            reported.extend(r.deps.iter().cloned());
                        }
                    }
                    if !s.oos.is_empty() && !reported.contains(&s.oos[0]) && rng.chance(1, 2) {
                        let f = s.oos.remove(0);
                        desc = format!("{} order-only {}", s.id, f);
                    } else if !s.imps.is_empty() {
                        let f = s.imps.remove(0);
                        desc = format!("{} implicit {}", s.id, f);
                    } else if s.ins.len() > 1 {
                        let f = s.ins.pop().unwrap();
                        desc = format!("{} explicit {}", s.id, f);
                    } else {
                        return None;
                    }
                    world.write_manifest();
                    Some(op("remove-edge", desc))
                }
            }
        }
        14 => {
            // move an output from one step to another
            let donors: Vec<usize> = real_steps.iter().copied().filter(|&i| world.proj.steps[i].outs.len() + world.proj.steps[i].iouts.len() >= 2).collect();
            if donors.is_empty() || real_steps.len() < 2 {
                return None;
            }
            let a = *rng.pick(&donors);
            let b = *rng.pick(&real_steps);
            if a == b {
                return None;
            }
            let rel = Rel::new(&world.proj);
            // moving must not create an ordering cycle: b must not depend on a's outputs' consumers...
            // keep it simple: only move when neither step is an ancestor of the other
            if rel.ord_anc[a].contains(&b) || rel.ord_anc[b].contains(&a) {
                return None;
            }
            let o = if !world.proj.steps[a].iouts.is_empty() { world.proj.steps[a].iouts.pop().unwrap() } else { world.proj.steps[a].outs.pop().unwrap() };
            // consumers of o now depend on b: reject if that closes a cycle
            if rng.chance(1, 2) {
                world.proj.steps[b].iouts.push(o.clone());
            } else {
                world.proj.steps[b].outs.push(o.clone());
            }
            let rel2 = Rel::new(&world.proj);
            if (0..world.proj.steps.len()).any(|i| rel2.ord_anc[i].contains(&i)) {
                // undo
                let sb = &mut world.proj.steps[b];
                if sb.iouts.last() == Some(&o) { sb.iouts.pop(); } else { sb.outs.pop(); }
                world.proj.steps[a].outs.push(o);
                return None;
            }
            let d = format!("{} from {} to {}", o, world.proj.steps[a].id, world.proj.steps[b].id);
            world.write_manifest();
            Some(op("move-output", d))
        }
        15 => {
            if real_steps.is_empty() {
                return None;
            }
            let i = *rng.pick(&real_steps);
            if !matches!(world.proj.steps[i].effect, Effect::Write | Effect::WriteIfChanged) {
                return None;
            }
            let o = format!("x{}_{}", world.proj.steps[i].id, rng.below(1000));
            // (a name the step already lists would be a repeated output, which n2 folds into one)
            if world.proj.steps.iter().any(|s| s.all_outs().any(|x| *x == o)) {
                return None;
            }
            if rng.chance(1, 2) {
                world.proj.steps[i].iouts.push(o.clone());
            } else {
                world.proj.steps[i].outs.push(o.clone());
            }
            let d = format!("{} gains {}", world.proj.steps[i].id, o);
            world.write_manifest();
            Some(op("add-output", d))
        }
        16 => {
            let cands: Vec<usize> = real_steps.iter().copied().filter(|&i| world.proj.steps[i].outs.len() >= 2).collect();
            if cands.is_empty() {
                return None;
            }
            let i = *rng.pick(&cands);
            let rel = Rel::new(&world.proj);
            let o = world.proj.steps[i].outs.last().unwrap().clone();
            // only drop an output nobody consumes
            if world.proj.steps.iter().any(|s| s.all_ins().any(|x| *x == o)) || world.proj.defaults.iter().flatten().any(|d| *d == o) {
                return None;
            }
            let _ = rel;
            world.proj.steps[i].outs.pop();
            let d = format!("{} loses {}", world.proj.steps[i].id, o);
            world.write_manifest();
            Some(op("remove-output", d))
        }
        13 => {
            if !srcs.iter().any(|s| s == "gen.in") {
                return None;
            }
            world.write_source("gen.in", rng.next());
            Some(op("modify-source", "gen.in"))
        }
        12 => {
            // description / pool change: not covered by the signature
            if real_steps.is_empty() {
                return None;
            }
            let i = *rng.pick(&real_steps);
            let s = &mut world.proj.steps[i];
            s.desc = Some(format!("new description {}", rng.below(1000)));
            let id = s.id.clone();
            world.write_manifest();
            Some(op("change-description", id))
        }
        _ => None,
    }
}

fn history_case(ctx: &Ctx, dir: &std::path::Path, case: u64, seed: u64, rep: &mut Report) {
    // C13 borrows C09's workload (dependencies reported under several spellings) and, every third
    // case, C17's (the manifest itself named under another spelling with -f)
    let prop: &str = if ctx.prop == "C13" { if case % 3 == 0 { "C17" } else { "C09" } } else if ctx.prop == "C15" { "C09" } else { &ctx.prop };
    let mut rng = Rng::new(seed);
    let mut opts = hist_opts(prop, &mut rng, ctx.thorough());
    if ctx.prop == "C13" {
        opts.defaults = rng.chance(1, 2);
    }
    let mut proj = gen_project(&mut rng, &opts);
    if prop == "C03" && rng.chance(1, 4) {
        // Meson-style: a step touches an input nobody else uses
        let cands: Vec<usize> = (0..proj.steps.len()).filter(|&i| !proj.steps[i].phony).collect();
        if !cands.is_empty() {
            let i = *rng.pick(&cands);
            let f = format!("own{}.in", i);
            proj.sources.push(f.clone());
            proj.steps[i].ins.push(f.clone());
            proj.steps[i].effect = Effect::TouchOwnInput(f);
        }
    }
    if prop == "C03" && rng.chance(1, 5) {
        // a module cache / precompiled header: reported as a dependency and touched by the same command
        let cands: Vec<usize> = (0..proj.steps.len()).filter(|&i| !proj.steps[i].phony && proj.steps[i].effect == Effect::Write).collect();
        if !cands.is_empty() {
            let i = *rng.pick(&cands);
            let f = format!("owncache{}.h", i);
            proj.sources.push(f.clone());
            proj.steps[i].discovers = true;
            proj.steps[i].extra_reads.push(f.clone());
            proj.steps[i].effect = Effect::TouchOwnInput(f);
        }
    }
    if prop == "C02" && rng.chance(1, 6) {
        let cands: Vec<usize> = (0..proj.steps.len()).filter(|&i| !proj.steps[i].phony).collect();
        if !cands.is_empty() {
            let i = *rng.pick(&cands);
            proj.steps[i].effect = if rng.chance(1, 2) { Effect::NoOutput } else { Effect::SomeOutputs(1) };
        }
    }
    if prop == "C08" {
        // records with several outputs, so that moves can split them in many ways
        for i in 0..proj.steps.len() {
            if !proj.steps[i].phony && rng.chance(1, 2) {
                for k in 0..rng.range(1, 3) {
                    let o = format!("m{}_{}", i, k);
                    if rng.chance(1, 2) {
                        proj.steps[i].outs.push(o);
                    } else {
                        proj.steps[i].iouts.push(o);
                    }
                }
            }
        }
    }
    if matches!(prop, "C02" | "C03") && rng.chance(1, 6) {
        // the same input listed twice on one build line (a library named twice on a link line, the same
        // file as explicit and implicit input)
        let cands: Vec<usize> = (0..proj.steps.len()).filter(|&i| !proj.steps[i].phony && !proj.steps[i].ins.is_empty()).collect();
        if !cands.is_empty() {
            let i = *rng.pick(&cands);
            let f = proj.steps[i].ins[0].clone();
            if rng.chance(1, 2) {
                proj.steps[i].ins.push(f);
            } else {
                proj.steps[i].imps.push(f);
            }
        }
    }
    // C02 over generated manifests (every fifth history): C17's operations, C02's oracle
    let regen_c02 = prop == "C02" && rng.chance(1, 5);
    let mut gens = if prop == "C17" || regen_c02 { make_generations(&mut proj, &mut rng) } else { vec![] };
    if !gens.is_empty() && rng.chance(1, 4) {
        // (in-process only) the generator reports, and rewrites on every run, a cache file of its own
        if let Some(gi) = proj.step_index("gen") {
            if proj.steps[gi].discovers {
                proj.sources.push("gencache.h".into());
                proj.steps[gi].extra_reads.push("gencache.h".into());
                for g in gens.iter_mut() {
                    g.sources.push("gencache.h".into());
                    if let Some(k) = g.step_index("gen") {
                        g.steps[k].extra_reads.push("gencache.h".into());
                    }
                }
            }
        }
    }
    clear_dir(dir);
    let mut world = World::new(dir.to_path_buf(), proj);
    world.next_gens = gens;
    world.init_sources(&mut rng);
    if ctx.prop == "C13" {
        // every path of the manifest (outputs, inputs of every role, `default` targets) in a spelling of its own
        world.ropts.spell_seed = rng.next() | 1;
        world.ropts.via_vars = rng.chance(1, 3);
    } else if rng.chance(1, 5) {
        world.ropts.spell_seed = rng.next() | 1;
    }
    if rng.chance(1, 5) {
        // paths written through block variables that shadow file-level ones
        world.ropts.shadow_seed = rng.next() | 1;
    }
    if prop == "C17" && rng.chance(1, 3) {
        // the CMake layout: the generator rewrites an included file along with the manifest
        world.ropts.split_include = Some("rules.ninja".into());
    }
    if regen_c02 {
        // the same layout with a generator that leaves the manifest alone when its text is unchanged:
        // a generation that only differs in the included half must still be reloaded
        // (drawn from a private stream so that the other histories of this seed stay what they were)
        let mut r2 = Rng::new(rng.clone().next() ^ 0x5eed_c02);
        if r2.chance(1, 2) {
            world.ropts.split_include = Some("rules.ninja".into());
            world.st.gen_write_if_changed = true;
        }
    }
    world.write_manifest();

    let mut hist = Hist { ops: vec![], builds: 0, edits_between: false, sig: fnv(b"hist") };
    let nops = rng.range(3, if ctx.thorough() { 12 } else { 8 });
    // effective targets of the last successful invocation with no edit since
    let mut last_success_no_edit: Option<Vec<String>> = None;
    let mut nontrivial = false;
    for _ in 0..nops {
        if ctx.expired() {
            break;
        }
        let do_build = hist.ops.is_empty() || rng.chance(1, 2);
        if !do_build {
            if let Some(o) = random_edit(if regen_c02 { "C17" } else { prop }, &mut rng, &mut world) {
                hist.sig = fnv_combine(hist.sig, fnv(o.dump().as_bytes()));
                hist.ops.push(o);
                hist.edits_between = true;
                last_success_no_edit = None;
            }
            continue;
        }
        // build (sometimes a restat episode for C03)
        let mut inv = random_inv(&mut rng, &world.proj, matches!(prop, "C02" | "C09"));
        if prop == "C17" && rng.chance(1, 4) {
            // -f with a non-canonical spelling of the manifest's name
            inv.build_file = Some(respell(&world.proj.manifest, &mut rng));
        }
        if prop == "C17" || regen_c02 {
            inv.targets = pick_outs(&world.proj, &mut rng);
            if rng.chance(1, 6) {
                inv.faults.insert("gen".into(), FailMode::Nothing);
            }
        }
        let restat = prop == "C03" && rng.chance(1, 6);
        if restat {
            inv.adopt = true;
            inv.faults.clear();
        }
        if matches!(prop, "C02" | "C03" | "C08" | "C09") && !restat && !regen_c02 && rng.chance(1, 8) {
            // n2 dies while appending to the log (any write, any byte count): later invocations
            // see exactly the records that were completely written
            inv.crash = Some((rng.below(8), rng.below(30)));
        }
        let proj_before = world.proj.clone();
        let pred = predict_inv(&world, &inv);
        let manifest_tick_before = world.st.disk.get(&world.proj.manifest).map(|f| f.tick);
        let (w, out) = run_inv(world, &inv);
        world = w;
        rep.evaluations += 1;
        hist.builds += 1;
        if world.st.gen_write_if_changed && out.epochs >= 2 && world.st.disk.get(&world.proj.manifest).map(|f| f.tick) == manifest_tick_before {
            // the generator ran, left the top-level manifest untouched, and n2 loaded again
            rep.count("reloads_with_untouched_manifest", 1);
        }
        hist.ops.push(J::obj().with("build", inv.to_json()).with("started", J::Arr(out.started.iter().map(|v| J::strs(v.iter().cloned())).collect())).with("result", J::s(format!("{:?}", out.result))));
        if matches!(out.result, InvResult::Crashed) {
            rep.count("crashed_builds_in_history", 1);
            hist.sig = fnv_combine(hist.sig, out.interleaving_hash());
            hist.edits_between = true;
            last_success_no_edit = None;
            continue;
        }
        hist.sig = fnv_combine(hist.sig, out.interleaving_hash());
        let eff = sorted(&world.proj.effective_targets(&inv.targets));
        let mut expect_noop = last_success_no_edit.as_ref() == Some(&eff) && inv.faults.is_empty();
        if !matches!(prop, "C03" | "C08") {
            // outside C03's domain (e.g. a reported dependency that does not exist) a
            // repeat may legitimately run something; the model says when
            expect_noop &= predict_inv(&world, &inv).expected_runs(&world.proj).iter().all(|v| v.is_empty());
        }
        if restat {
            // adopt: no command may run
            if !out.started.iter().all(|v| v.is_empty()) {
                rep.violation("restat-ran-commands", &format!("-t restat started {:?}", out.started), J::obj().with("case", J::i(case)).with("history", J::Arr(hist.ops.clone())));
            }
            rep.count("restat_episodes", 1);
        }
        // non-triviality: a strict non-empty subset of the wanted steps is dirty
        let wanted = pred.p1.wanted.len() + pred.p2.as_ref().map(|(_, p)| p.wanted.len()).unwrap_or(0);
        let runs = pred.p1.run.len() + pred.p2.as_ref().map(|(_, p)| p.run.len()).unwrap_or(0);
        if hist.builds >= 2 && hist.edits_between && runs > 0 && runs < wanted {
            nontrivial = true;
        }
        if prop == "C17" && out.epochs >= 2 {
            nontrivial = true;
        }
        let go = judge_inv(ctx, rep, case, &hist, &proj_before, &pred, &inv, &out, &world, expect_noop && !restat);
        if !go {
            break;
        }
        last_success_no_edit = if matches!(out.result, InvResult::Success(_)) && !restat && out.epochs == 1 { Some(eff) } else { None };
        if restat && matches!(out.result, InvResult::Success(_)) {
            // the build after a restat must be a no-op for the same targets
            let inv2 = Inv { targets: inv.targets.clone(), seed: rng.next(), k: None, ..Default::default() };
            let pred2 = predict_inv(&world, &inv2);
            let pb = world.proj.clone();
            let (w, out2) = run_inv(world, &inv2);
            world = w;
            rep.evaluations += 1;
            hist.ops.push(J::obj().with("build-after-restat", inv2.to_json()).with("started", J::Arr(out2.started.iter().map(|v| J::strs(v.iter().cloned())).collect())));
            if !judge_inv(ctx, rep, case, &hist, &pb, &pred2, &inv2, &out2, &world, false) {
                break;
            }
        }
        hist.edits_between = false;
        // immediate no-edit rebuild after a success (C03 / C08 / C09)
        if matches!(out.result, InvResult::Success(_)) && !restat && rng.chance(1, 2) {
            let inv2 = Inv { targets: inv.targets.clone(), j: inv.j, k: inv.k, seed: rng.next(), policy: Policy::Random, ..Default::default() };
            let pred2 = predict_inv(&world, &inv2);
            let pb = world.proj.clone();
            let (w, out2) = run_inv(world, &inv2);
            world = w;
            rep.evaluations += 1;
            hist.ops.push(J::obj().with("rebuild", inv2.to_json()).with("started", J::Arr(out2.started.iter().map(|v| J::strs(v.iter().cloned())).collect())));
            let predicted_empty = pred2.expected_runs(&pb).iter().all(|v| v.is_empty());
            rep.count("noop_rebuilds_checked", predicted_empty as u64);
            if !judge_inv(ctx, rep, case, &hist, &pb, &pred2, &inv2, &out2, &world, predicted_empty) {
                break;
            }
        }
    }
    if nontrivial {
        rep.nontrivial.insert(hist.sig);
        let ops = hist.ops.clone();
        rep.sample(|| J::obj().with("case", J::i(case)).with("history", J::Arr(ops)));
    }
    let _ = world;
}

/// C17: make the manifest a generated file and produce 1-3 future generations.
pub fn make_generations(proj: &mut Project, rng: &mut Rng) -> Vec<Project> {
    proj.sources.push("gen.in".into());
    proj.quiet_generator = rng.chance(1, 3);
    // a generator that reports what it read (GN style: depfile = build.ninja.d); the list changes,
    // and sometimes shrinks to nothing, from one generation to the next
    let gen_discovers = rng.chance(1, 2);
    if gen_discovers {
        proj.sources.push("gen.h".into());
    }
    let gen_reads = |rng: &mut Rng, proj: &Project| -> Vec<String> {
        match rng.below(3) {
            0 => vec![],
            1 => vec!["gen.h".to_string()],
            _ => {
                let mut v = vec!["gen.h".to_string()];
                if let Some(s) = proj.sources.iter().find(|s| *s != "gen.h" && *s != "gen.in") {
                    v.push(s.clone());
                }
                v
            }
        }
    };
    let first_reads = if gen_discovers { gen_reads(rng, proj) } else { vec![] };
    let mut ins = vec!["gen.in".to_string()];
    if rng.chance(1, 3) {
        if let Some(s) = proj.sources.first().cloned() {
            if s != "gen.in" {
                ins.push(s);
            }
        }
    }
    let mut imps = vec![];
    if rng.chance(1, 3) {
        if let Some(s) = proj.steps.iter().find(|s| !s.phony) {
            imps.push(s.outs[0].clone());
        }
    }
    let mut oos = vec![];
    if rng.chance(1, 4) {
        if let Some(s) = proj.steps.iter().find(|s| s.phony) {
            oos.push(s.outs[0].clone());
        }
    }
    proj.steps.push(Step {
        id: "gen".into(),
        outs: vec![proj.manifest.clone()],
        iouts: vec![],
        ins,
        imps,
        oos,
        vals: vec![],
        phony: false,
        ver: 1,
        pool: None,
        rsp: None,
        depfile: None,
        msvc: false,
        desc: None,
        effect: Effect::Generator,
        extra_reads: first_reads,
        discovers: gen_discovers,
    });
    let mut gens = Vec::new();
    let mut cur = proj.clone();
    let n = rng.range(1, 3);
    for g in 0..n {
        let mut next = cur.clone();
        // mutate: change commands, add a step, remove a leaf, rewire
        let k = rng.range(1, 3);
        for _ in 0..k {
            let real: Vec<usize> = (0..next.steps.len()).filter(|&i| !next.steps[i].phony && next.steps[i].effect != Effect::Generator).collect();
            match rng.below(4) {
                0 if !real.is_empty() => {
                    let i = *rng.pick(&real);
                    next.steps[i].ver += 1;
                }
                1 => {
                    let mut id = format!("g{}n{}", g, next.steps.len());
                    while next.step_index(&id).is_some() {
                        id.push('x');
                    }
                    let src = next.sources[0].clone();
                    // anywhere before the generator step: shifts the internal numbering of later files
                    let pos = rng.below(next.steps.len());
                    next.steps.insert(
                        pos,
                        Step {
                            id: id.clone(),
                            outs: vec![format!("o_{}", id)],
                            iouts: vec![],
                            ins: vec![src],
                            imps: vec![],
                            oos: vec![],
                            vals: vec![],
                            phony: false,
                            ver: 1,
                            pool: None,
                            rsp: None,
                            depfile: None,
                            msvc: false,
                            desc: None,
                            effect: Effect::Write,
                            extra_reads: vec![],
                            discovers: false,
                        },
                    );
                }
                2 if real.len() > 1 => {
                    let rel = Rel::new(&next);
                    let cands: Vec<usize> = real.iter().copied().filter(|&i| !(0..next.steps.len()).any(|j| rel.all_pred[j].contains(&i))).collect();
                    if !cands.is_empty() {
                        let i = *rng.pick(&cands);
                        let removed = next.steps.remove(i);
                        next.defaults.retain(|d| !d.iter().any(|t| removed.all_outs().any(|o| o == t)));
                    }
                }
                _ if !real.is_empty() => {
                    let i = *rng.pick(&real);
                    let src = rng.pick(&next.sources).clone();
                    if !next.steps[i].all_ins().any(|x| *x == src) && !src.ends_with(".h") {
                        next.steps[i].imps.push(src);
                        // the command text identifies what a step does (the black-box agent looks it up by it)
                        next.steps[i].ver += 1;
                    }
                }
                _ => {}
            }
        }
        if gen_discovers {
            let r = gen_reads(rng, &next);
            if let Some(gi) = next.step_index("gen") {
                next.steps[gi].extra_reads = r;
            }
        }
        gens.push(next.clone());
        cur = next;
    }
    gens
}

// ------------------------------------------------------------------------
// C07: crash enumeration

fn crash_case(ctx: &Ctx, dir: &std::path::Path, case: u64, seed: u64, rep: &mut Report) {
    let mut rng = Rng::new(seed);
    let mut opts = GenOpts::default();
    opts.max_steps = if ctx.thorough() { 8 } else { 6 };
    opts.discovers = true;
    opts.effects = true;
    opts.pools = false;
    let proj = gen_project(&mut rng, &opts);
    clear_dir(dir);
    let mut world = World::new(dir.to_path_buf(), proj);
    world.init_sources(&mut rng);
    world.write_manifest();
    let mut hist = Hist { ops: vec![], builds: 0, edits_between: false, sig: fnv(b"crash") };
    // 0-2 complete builds with edits in between
    let pre = rng.below(3);
    for _ in 0..pre {
        let inv = random_inv(&mut rng, &world.proj, false);
        let pb = world.proj.clone();
        let pred = predict_inv(&world, &inv);
        let (w, out) = run_inv(world, &inv);
        world = w;
        rep.evaluations += 1;
        hist.ops.push(J::obj().with("build", inv.to_json()).with("result", J::s(format!("{:?}", out.result))));
        if !judge_inv(ctx, rep, case, &hist, &pb, &pred, &inv, &out, &world, false) {
            return;
        }
        let ne = rng.range(1, 3);
        for _ in 0..ne {
            if let Some(o) = random_edit("C07", &mut rng, &mut world) {
                hist.ops.push(o);
            }
        }
    }
    // the build that will be crashed: learn its writes first
    let mut inv = random_inv(&mut rng, &world.proj, false);
    inv.targets.clear();
    inv.policy = Policy::Fifo;
    let snap = world.snapshot();
    let (w, probe) = run_inv(world, &inv);
    world = w;
    rep.evaluations += 1;
    if !matches!(probe.result, InvResult::Success(_)) {
        return;
    }
    let writes: Vec<(usize, usize)> = probe.db_writes.iter().enumerate().map(|(i, w)| (i, w.bytes.len())).collect();
    if writes.is_empty() {
        return;
    }
    hist.ops.push(J::obj().with("crashed-build", inv.to_json()).with("db_writes", J::Arr(probe.db_writes.iter().map(|w| J::s(format!("{:?}:{}", w.kind, w.bytes.len()))).collect())));
    let mut points = 0u64;
    'outer: for &(wi, len) in &writes {
        for n in 0..=len {
            if ctx.expired() {
                break 'outer;
            }
            // quick tier: sample byte counts for long records
            if !ctx.thorough() && len > 12 && n > 4 && n + 4 < len && !rng.chance(1, 3) {
                continue;
            }
            world.restore(&snap);
            let mut ci = inv.clone();
            ci.crash = Some((wi, n));
            let (w, out) = run_inv(world, &ci);
            world = w;
            rep.evaluations += 1;
            points += 1;
            let mut h2 = Hist { ops: hist.ops.clone(), builds: 0, edits_between: false, sig: 0 };
            h2.ops.push(J::obj().with("crash-at-write", J::i(wi)).with("bytes-written", J::i(n)).with("of", J::i(len)));
            if !matches!(out.result, InvResult::Crashed) {
                // the write sequence differed this time (start order is not deterministic); still a valid run
                rep.count("crash_point_not_reached", 1);
                continue;
            }
            rep.count("crash_points", 1);
            if n > 0 && n < len {
                rep.count("crash_points_mid_record", 1);
                rep.nontrivial.insert(fnv_combine(fnv_combine(snap.proj.shape_hash(), wi as u64), (n as u64) << 20 | len as u64));
            }
            // file must be a prefix of a well-formed log
            let bytes = std::fs::read(world.db_path()).unwrap_or_default();
            let parsed = crate::dbfmt::parse_db(&bytes);
            if let Some(m) = &parsed.malformed {
                rep.inconclusive.push(format!("case {}: harness db reader rejects crashed file: {}", case, m));
            }
            // sometimes the manifest is edited before the next build (a record torn by the crash may
            // then belong to outputs that no single step produces any more)
            if rng.chance(1, 3) {
                for _ in 0..rng.range(1, 2) {
                    if let Some(o) = random_edit("C08", &mut rng, &mut world) {
                        h2.ops.push(o);
                    }
                }
            }
            // invocation 2: fault-free, all targets
            let inv2 = Inv { j: 64, k: None, policy: Policy::Random, seed: rng.next(), ..Default::default() };
            let pb = world.proj.clone();
            let pred2 = predict_inv(&world, &inv2);
            let (w, out2) = run_inv(world, &inv2);
            world = w;
            rep.evaluations += 1;
            h2.ops.push(J::obj().with("build-after-crash", inv2.to_json()).with("started", J::Arr(out2.started.iter().map(|v| J::strs(v.iter().cloned())).collect())).with("result", J::s(format!("{:?}", out2.result))));
            if !judge_inv(ctx, rep, case, &h2, &pb, &pred2, &inv2, &out2, &world, false) {
                continue;
            }
            // the log it leaves must be loadable by the independent reader, without torn tail
            let bytes = std::fs::read(world.db_path()).unwrap_or_default();
            let parsed = crate::dbfmt::parse_db(&bytes);
            if parsed.malformed.is_some() || parsed.torn || !parsed.header_ok {
                rep.violation(
                    "log-not-wellformed-after-recovery",
                    &format!("after crash at write {} byte {}/{} and one more build the log is not a well-formed file: malformed={:?} torn={}", wi, n, len, parsed.malformed, parsed.torn),
                    J::obj().with("case", J::i(case)).with("history", J::Arr(h2.ops.clone())),
                );
            }
            // invocation 3: must be a no-op
            let inv3 = Inv { j: 64, k: None, seed: rng.next(), ..Default::default() };
            let pb = world.proj.clone();
            let pred3 = predict_inv(&world, &inv3);
            let predicted_empty = pred3.expected_runs(&pb).iter().all(|v| v.is_empty());
            let (w, out3) = run_inv(world, &inv3);
            world = w;
            rep.evaluations += 1;
            h2.ops.push(J::obj().with("third-build", inv3.to_json()).with("started", J::Arr(out3.started.iter().map(|v| J::strs(v.iter().cloned())).collect())).with("result", J::s(format!("{:?}", out3.result))));
            judge_inv(ctx, rep, case, &h2, &pb, &pred3, &inv3, &out3, &world, predicted_empty);
            if points == 1 {
                let ops = h2.ops.clone();
                rep.sample(|| J::obj().with("case", J::i(case)).with("history", J::Arr(ops)));
            }
        }
    }
    rep.count("crash_histories", 1);
    let _ = world;
}

// ------------------------------------------------------------------------
// C08(a): record shapes

fn long_name(rng: &mut Rng, i: usize, len: usize) -> String {
    // nested directories of <= 200-byte components, some non-ASCII
    let alphabet = ["a", "b", "x", "_", "é", "ü", "日", "本", "0", "9", "-", "+"];
    let mut s = format!("L{}_", i);
    let mut comp_len = s.len();
    while s.len() < len {
        let a = rng.pick(&alphabet);
        if comp_len + a.len() > 200 {
            s.push('/');
            comp_len = 0;
        }
        s.push_str(a);
        comp_len += a.len();
    }
    s.push_str(".h");
    s
}

fn shapes_case(ctx: &Ctx, dir: &std::path::Path, case: u64, seed: u64, rep: &mut Report) {
    let mut rng = Rng::new(seed);
    let nouts = *rng.pick(&[1usize, 2, 3, 7, 40]);
    let mut ndeps = *rng.pick(&[0usize, 1, 2, 255, 256, 257, 300, 1000]);
    let big = if ctx.thorough() { rng.chance(1, 6) } else { case == 3 };
    if big {
        ndeps = *rng.pick(&[65535usize, 65536, 65537, 70000]);
    }
    let name_len = if ndeps > 2000 { 12 } else { *rng.pick(&[1usize, 8, 60, 255, 1000, 3900]) };
    let mut p = Project { manifest: "build.ninja".into(), agent: "sim".into(), ..Default::default() };
    p.sources.push("a.c".into());
    let mut deps = Vec::new();
    for i in 0..ndeps {
        let n = if ndeps > 2000 { format!("d/{:x}.h", i) } else { long_name(&mut rng, i, name_len) };
        deps.push(n);
    }
    let mk = |id: &str, outs: Vec<String>, ins: Vec<String>, deps: Vec<String>| Step {
        id: id.into(),
        outs,
        iouts: vec![],
        ins,
        imps: vec![],
        oos: vec![],
        vals: vec![],
        phony: false,
        ver: 1,
        pool: None,
        rsp: None,
        depfile: None,
        msvc: false,
        desc: None,
        effect: Effect::Write,
        discovers: !deps.is_empty() || true,
        extra_reads: deps,
    };
    let outs: Vec<String> = (0..nouts).map(|i| format!("big{}.o", i)).collect();
    p.steps.push(mk("big", outs.clone(), vec!["a.c".into()], deps.clone()));
    // a second step so that the record after the big one is read too
    p.steps.push(mk("after", vec!["after.o".into()], vec![outs[0].clone()], vec![]));
    clear_dir(dir);
    let mut world = World::new(dir.to_path_buf(), p);
    world.write_source("a.c", rng.next());
    for d in &deps {
        world.write_source(d, rng.next());
    }
    world.proj.sources.extend(deps.iter().cloned());
    world.write_manifest();
    let mut hist = Hist { ops: vec![], builds: 0, edits_between: false, sig: fnv_combine(fnv(b"shape"), (nouts * 100000 + ndeps) as u64) };
    hist.ops.push(J::obj().with("shape", J::s(format!("{} outputs, {} discovered deps, names ~{} bytes", nouts, ndeps, name_len))));
    rep.count("shape_cases", 1);
    rep.max("max_deps_in_record", ndeps as u64);
    for round in 0..3 {
        let inv = Inv { j: 4, k: None, seed: rng.next(), ..Default::default() };
        let pb = world.proj.clone();
        let pred = predict_inv(&world, &inv);
        let (w, out) = run_inv(world, &inv);
        world = w;
        rep.evaluations += 1;
        hist.ops.push(J::obj().with("build", J::i(round)).with("started", J::Arr(out.started.iter().map(|v| J::strs(v.iter().cloned())).collect())).with("result", J::s(format!("{:?}", out.result))));
        if !judge_inv(ctx, rep, case, &hist, &pb, &pred, &inv, &out, &world, round == 1) {
            break;
        }
        if round == 1 {
            // touch one dep (or the source): exactly `big` and possibly `after` rerun
            let f = if deps.is_empty() { "a.c".to_string() } else { rng.pick(&deps).clone() };
            world.touch(&f);
            hist.ops.push(op("touch", f));
        }
    }
    if ndeps >= 255 || nouts >= 7 || name_len >= 255 {
        rep.nontrivial.insert(hist.sig);
    }
    let ops = hist.ops.clone();
    if ndeps < 100 {
        rep.sample(|| J::obj().with("case", J::i(case)).with("history", J::Arr(ops)));
    }
    let _ = world;
}

// ------------------------------------------------------------------------
// C07(c): a log whose records end exactly on the reader's buffer boundaries

/// An ASCII path of exactly `len` bytes (components of at most 200 bytes).
fn exact_name(tag: &str, len: usize) -> String {
    let mut s = String::with_capacity(len);
    s.push_str(tag);
    let mut comp = s.len();
    while s.len() < len {
        if comp >= 200 && s.len() + 2 <= len {
            s.push('/');
            comp = 0;
        } else {
            s.push('a');
            comp += 1;
        }
    }
    s.truncate(len);
    s
}

/// No crash at all: a log of more than 8 KiB in which a record ends exactly at a multiple of 8192 bytes
/// (the size of the buffered reader's window) must load like any other.
fn aligned_case(ctx: &Ctx, dir: &std::path::Path, case: u64, seed: u64, rep: &mut Report) {
    let mut rng = Rng::new(seed);
    let mut opts = GenOpts::default();
    opts.max_steps = 5;
    opts.pools = false;
    let proj = gen_project(&mut rng, &opts);
    clear_dir(dir);
    let mut world = World::new(dir.to_path_buf(), proj);
    world.init_sources(&mut rng);
    world.write_manifest();
    let mut hist = Hist { ops: vec![], builds: 0, edits_between: false, sig: fnv(b"aligned") };
    let mk_step = |id: &str, out: String, src: String| Step {
        id: id.to_string(),
        outs: vec![out],
        iouts: vec![],
        ins: vec![src],
        imps: vec![],
        oos: vec![],
        vals: vec![],
        phony: false,
        ver: 1,
        pool: None,
        rsp: None,
        depfile: None,
        msvc: false,
        desc: None,
        effect: Effect::Write,
        extra_reads: vec![],
        discovers: false,
    };
    let build = |world: World, hist: &mut Hist, rep: &mut Report, rng: &mut Rng, expect_noop: bool, what: &str| -> Option<World> {
        let inv = Inv { j: 64, k: None, policy: Policy::Random, seed: rng.next(), ..Default::default() };
        let pb = world.proj.clone();
        let pred = predict_inv(&world, &inv);
        let (w, out) = run_inv(world, &inv);
        rep.evaluations += 1;
        hist.builds += 1;
        hist.ops.push(J::obj().with(what, inv.to_json()).with("started", J::Arr(out.started.iter().map(|v| J::strs(v.iter().cloned())).collect())).with("result", J::s(format!("{:?}", out.result))));
        if !judge_inv(ctx, rep, case, hist, &pb, &pred, &inv, &out, &w, expect_noop) {
            return None;
        }
        Some(w)
    };
    let Some(w) = build(world, &mut hist, rep, &mut rng, false, "build") else { return };
    world = w;
    let src = world.proj.sources[0].clone();
    let boundaries = rng.range(1, 3);
    let mut made = 0;
    for round in 0..8 {
        if made >= boundaries || ctx.expired() {
            break;
        }
        let size = std::fs::metadata(world.db_path()).map(|m| m.len() as usize).unwrap_or(0);
        // the next append is the path record of the new output: 2 bytes of length, then the name
        let need = (8192 - ((size + 2) % 8192)) % 8192;
        let id = format!("al{}", round);
        if (12..=3000).contains(&need) {
            world.proj.steps.push(mk_step(&id, exact_name(&format!("AL{}_", round), need), src.clone()));
            made += 1;
            hist.ops.push(J::obj().with("add-step-ending-on-boundary", J::i(size + 2 + need)));
        } else {
            // not reachable with one name: pad the log first
            world.proj.steps.push(mk_step(&id, exact_name(&format!("PAD{}_", round), 2500 + rng.below(500)), src.clone()));
            hist.ops.push(J::obj().with("add-padding-step", J::i(size)));
        }
        world.write_manifest();
        let Some(w) = build(world, &mut hist, rep, &mut rng, false, "build") else { return };
        world = w;
        let Some(w) = build(world, &mut hist, rep, &mut rng, true, "rebuild") else { return };
        world = w;
    }
    if made > 0 {
        rep.count("aligned_log_histories", 1);
        // one more round trip: edit, build, no-op
        let s = rng.pick(&world.proj.sources.clone()).clone();
        world.write_source(&s, rng.next());
        hist.edits_between = true;
        let Some(w) = build(world, &mut hist, rep, &mut rng, false, "build-after-edit") else { return };
        world = w;
        let Some(w) = build(world, &mut hist, rep, &mut rng, true, "rebuild") else { return };
        world = w;
        let size = std::fs::metadata(world.db_path()).map(|m| m.len()).unwrap_or(0);
        rep.max("max_log_bytes", size);
        rep.nontrivial.insert(fnv_combine(hist.sig, size));
        let ops = hist.ops.clone();
        rep.sample(|| J::obj().with("case", J::i(case)).with("history", J::Arr(ops)));
    }
    let _ = world;
}
