//! Black-box (E2) workloads: the real n2 binary with real commands.
use super::{case_loop, predict_inv};
use crate::ap::*;
use crate::json::J;
use crate::model::*;
use crate::real::*;
use crate::report::Report;
use crate::rng::{fnv, fnv_combine, Rng};
use crate::sim::{clear_dir, World};
use crate::Ctx;
use std::collections::{BTreeMap, BTreeSet};

pub fn env_from(ctx: &Ctx) -> RealEnv {
    let n2 = ctx.arg("--n2").map(std::path::PathBuf::from).expect("--n2 <path to n2 binary>");
    let agent = std::env::current_exe().unwrap().with_file_name("n2v-agent");
    let wrapper = ctx.arg("--wrap").map(|w| w.split(' ').map(|s| s.to_string()).collect()).unwrap_or_default();
    RealEnv { n2, agent, wrapper }
}

pub fn run(ctx: &Ctx, rep: &mut Report) {
    let env = env_from(ctx);
    let dir = ctx.scratch.join("r");
    std::fs::create_dir_all(&dir).unwrap();
    case_loop(ctx, rep, |case, seed, rep| match ctx.prop.as_str() {
        "C16" => super::real_c16::case(ctx, &env, &dir, case, seed, rep),
        "C07" => super::real_misc::c07_prefix_case(ctx, &env, &dir, case, seed, rep),
        "C08" => super::real_misc::c08_rawname_case(ctx, &env, &dir, case, seed, rep),
        // names that are not valid UTF-8 get recorded and loaded back by a second invocation
        "C12" if case % 6 == 5 => super::real_misc::c08_rawname_case(ctx, &env, &dir, case, seed, rep),
        "C12" => super::real_misc::c12_process_case(ctx, &env, &dir, case, seed, rep),
        "C20" => super::real_misc::c20_pty_case(ctx, &env, &dir, case, seed, rep),
        "C06" if case % 4 == 1 => super::real_misc::c06_deep_chain_case(ctx, &env, &dir, case, seed, rep),
        // termination at process level: whatever a successful command leaves behind as its depfile
        "C06" if case % 4 == 3 => super::real_misc::c12_process_case(ctx, &env, &dir, case, seed, rep),
        "C18" if case % 2 == 0 => super::real_misc::c18_args_case(ctx, &env, &dir, case, seed, rep),
        "C19" if case % 2 == 0 => super::real_gated::c19_pty_case(ctx, &env, &dir, case, seed, rep),
        "C05" if case % 4 == 2 => super::real_gated::c05_sigint_case(ctx, &env, &dir, case, seed, rep),
        "C05" if case % 4 == 1 => super::real_gated::c05_spawn_failure_case(ctx, &env, &dir, case, seed, rep),
        "C04" if case % 6 == 3 => super::real_gated::c04_bigout_case(ctx, &env, &dir, case, seed, rep),
        _ => general_case(ctx, &env, &dir, case, seed, rep),
    });
}

/// Which tool (if any) reported a memory/thread error for this n2 run.
pub fn sanitizer_report(out: &ROut) -> Option<&'static str> {
    let se = String::from_utf8_lossy(&out.stderr);
    if out.exit == Some(98) || se.contains("AddressSanitizer") {
        return Some("asan");
    }
    if out.exit == Some(66) || se.contains("ThreadSanitizer") {
        return Some("tsan");
    }
    if out.exit == Some(99) || se.contains("ERROR SUMMARY") || se.contains("Invalid read") || se.contains("uninitialised value") {
        return Some("valgrind");
    }
    None
}

fn real_opts(prop: &str, rng: &mut Rng) -> GenOpts {
    let mut o = GenOpts::default();
    o.min_steps = 3;
    o.max_steps = 12;
    o.effects = matches!(prop, "C02" | "C03" | "C09" | "C15");
    o.discovers = matches!(prop, "C02" | "C03" | "C09" | "C13" | "C15");
    o.defaults = prop == "C18" && rng.chance(1, 2);
    if prop == "C04" {
        o.wide = true;
        o.max_steps = 20;
        o.min_steps = 6;
    }
    o
}

pub fn new_world(env: &RealEnv, dir: &std::path::Path, mut proj: Project, rng: &mut Rng) -> World {
    proj.agent = env.agent.to_string_lossy().into_owned();
    // discovered deps travel through real depfiles or /showIncludes output
    // depfiles kept in a sibling of an object directory that is a symbolic link to a scratch area:
    // `objlink/../depsdir/x.d` is `<scratch>/depsdir/x.d` to the OS, whatever it looks like lexically
    let mut linked_deps = false;
    for (si, s) in proj.steps.iter_mut().enumerate() {
        if s.discovers {
            if rng.chance(2, 3) {
                s.depfile = Some(format!("{}.d", s.outs[0]));
                if rng.chance(1, 6) {
                    s.depfile = Some(format!("objlink/../depsdir/s{}.d", si));
                    linked_deps = true;
                }
                // both mechanisms switched on: a compiler that writes a depfile and prints no include
                // notes reports exactly the depfile's prerequisites
                s.msvc = rng.chance(1, 4);
            } else {
                s.msvc = true;
            }
        }
    }
    clear_dir(dir);
    let mut w = World::new(dir.to_path_buf(), proj);
    if rng.chance(1, 5) {
        w.ropts.spell_seed = rng.next() | 1;
    }
    if rng.chance(1, 5) {
        w.ropts.shadow_seed = rng.next() | 1;
    }
    w.init_sources(rng);
    w.write_manifest();
    std::fs::create_dir_all(dir.join(".n2v")).unwrap();
    if linked_deps {
        std::fs::create_dir_all(dir.join(".n2v/scratch/obj")).unwrap();
        std::fs::create_dir_all(dir.join(".n2v/scratch/depsdir")).unwrap();
        let _ = std::os::unix::fs::symlink(".n2v/scratch/obj", dir.join("objlink"));
    }
    w
}

/// Everything judged about one black-box invocation.  `tags` limits which
/// clauses are reported for the property being checked.
#[allow(clippy::too_many_arguments)]
pub fn judge_real(
    ctx: &Ctx,
    rep: &mut Report,
    case: u64,
    hist: &[J],
    proj_before: &Project,
    pred: &super::PredInv,
    inv: &RInv,
    out: &ROut,
    w: &World,
    uncertain_before: &BTreeSet<String>,
) -> bool {
    let prop: &str = if ctx.prop == "C15" { "C09" } else { &ctx.prop };
    let mk = || J::obj().with("case", J::i(case)).with("project_at_invocation", proj_before.to_json()).with("history", J::Arr(hist.to_vec())).with("invocation", inv.to_json()).with("trace", out.trace_json());
    rep.count("invocations", 1);
    rep.count("agent_events", out.events.len() as u64);
    if out.timed_out {
        rep.inconclusive.push(format!("case {}: n2 did not finish within {} s (watchdog; inconclusive)", case, inv.timeout_s));
        return false;
    }
    // a sanitizer / valgrind report about n2 itself is a violation whatever the property under check
    if let Some(tool) = sanitizer_report(out) {
        rep.violation(
            &format!("sanitizer-report:{}", tool),
            &format!("{} reported an error in n2 (exit {:?}); stderr: {}", tool, out.exit, String::from_utf8_lossy(&out.stderr).chars().take(1500).collect::<String>()),
            mk(),
        );
        return false;
    }
    let rel = Rel::new(proj_before);
    let started = out.started();
    let started_set: BTreeSet<String> = started.iter().cloned().collect();
    let ok_set: BTreeSet<String> = out.finished_ok().into_iter().collect();
    // ---- interleaving signature
    let mut il = fnv(b"real");
    for e in &out.events {
        il = fnv_combine(il, fnv(e.step.as_bytes()) ^ e.kind as u64);
    }
    rep.interleavings.insert(il);
    let j = inv.j.unwrap_or(16);
    let conc = out.max_overlap(&|_| true);
    rep.max("max_concurrency_seen", conc as u64);

    // ---- C16: what the agents saw
    for e in out.events.iter().filter(|e| e.kind == 'S' || e.kind == 'X') {
        if e.info != "ok" && prop == "C16" {
            let class: String = e.info.split('=').next().unwrap_or("").to_string();
            rep.violation(&format!("agent-check:{}", class), &format!("step {} observed: {}", e.step, e.info), mk());
        }
    }
    // ---- C01: ordering and single start
    if prop == "C01" {
        let mut seen = BTreeSet::new();
        for e in out.events.iter().filter(|e| e.kind == 'S') {
            if !seen.insert(e.step.clone()) && !pred.reload {
                rep.violation("double-start", &format!("step {} started twice in one invocation", e.step), mk());
            }
            let Some(si) = proj_before.step_index(&e.step) else { continue };
            for &a in &rel.ord_anc[si] {
                let an = &proj_before.steps[a].id;
                let a_started = out.events.iter().any(|x| x.kind == 'S' && x.step == *an);
                if !a_started {
                    continue;
                }
                // the ancestor's end must be logged before this start
                let a_end = out.events.iter().filter(|x| x.kind == 'E' && x.step == *an).map(|x| x.ns).min();
                match a_end {
                    Some(t) if t <= e.ns => {}
                    _ => rep.violation("start-before-ancestor-finished", &format!("{} started at {} but its ordering ancestor {} had not finished (end {:?})", e.step, e.ns, an, a_end), mk()),
                }
            }
        }
    }
    // ---- C04
    if prop == "C04" {
        if conc > j {
            rep.violation("j-exceeded", &format!("{} agents overlapped with -j {}", conc, j), mk());
        }
        let mut pools: Vec<(String, usize)> = proj_before.pools.clone();
        pools.push(("console".into(), 1));
        for (pn, depth) in pools {
            if depth == 0 {
                continue;
            }
            let members: BTreeSet<&String> = proj_before.steps.iter().filter(|s| s.pool.as_deref() == Some(pn.as_str())).map(|s| &s.id).collect();
            let c = out.max_overlap(&|s| members.iter().any(|m| m.as_str() == s));
            if c > depth {
                rep.violation("pool-exceeded", &format!("{} agents of pool {} (depth {}) overlapped", c, pn, depth), mk());
            }
            if c == depth && members.len() > depth {
                rep.count("limit_binding_instants", 1);
            }
        }
        if conc == j {
            rep.count("limit_binding_instants", 1);
        }
    }
    // ---- exit status / diagnostics (C05, C12)
    let failed_planned: Vec<&String> = inv.faults.keys().filter(|s| started_set.contains(*s)).collect();
    let exit = out.exit;
    if matches!(prop, "C05" | "C16" | "C01") {
        if !failed_planned.is_empty() && exit == Some(0) {
            rep.violation("success-with-failed-command", &format!("exit 0 although {:?} failed", failed_planned), mk());
        }
        if exit.is_none() {
            rep.violation("n2-killed-by-signal", &format!("n2 died with signal {:?}", out.signal), mk());
        }
        // containment
        for s in &started {
            if let Some(si) = proj_before.step_index(s) {
                for &a in &rel.ord_anc[si] {
                    let an = &proj_before.steps[a].id;
                    if inv.faults.contains_key(an) && started_set.contains(an) {
                        rep.violation("start-after-ancestor-failed", &format!("{} started although its ordering ancestor {} failed", s, an), mk());
                    }
                }
            }
        }
    }
    if exit != Some(0) && exit != Some(1) && prop == "C12" {
        rep.violation("exit-status", &format!("exit status {:?} signal {:?}", exit, out.signal), mk());
    }
    // ---- run sets vs the model
    let exp_err = pred.error();
    let exp: BTreeSet<String> = pred.expected_runs(proj_before).into_iter().flatten().collect();
    let interrupted = pred.p1.interrupted || pred.p2.as_ref().map(|(_, p)| p.interrupted).unwrap_or(false);
    let nfail_pred = pred.p1.failed.len() + pred.p2.as_ref().map(|(_, p)| p.failed.len()).unwrap_or(0);
    let exact = exp_err.is_none() && !interrupted && (nfail_pred == 0 || inv.k.map(|k| nfail_pred < k).unwrap_or(true));
    // a step whose last completion may or may not have been recorded (see World::uncertain)
    // makes this invocation's run set unpredictable from outside
    let touches_uncertain = started_set.iter().chain(exp.iter()).any(|s| uncertain_before.contains(s));
    if touches_uncertain {
        rep.count("runset_checks_skipped_orphan_completion", 1);
    }
    if exp_err.is_none() {
        if touches_uncertain {
            // nothing to compare
        } else {
        let over: Vec<&String> = started_set.difference(&exp).collect();
        let under: Vec<&String> = exp.difference(&started_set).collect();
        if !over.is_empty() && matches!(prop, "C03" | "C09" | "C17" | "C18" | "C13") {
            rep.violation("ran-unexpected-step", &format!("started {:?}, model predicts {:?}; unexpected: {:?}", started, exp, over), mk());
        }
        if exact && !under.is_empty() && matches!(prop, "C02" | "C09" | "C17" | "C18" | "C05" | "C13") {
            rep.violation("skipped-dirty-step", &format!("started {:?}, model predicts {:?}; missing: {:?}", started, exp, under), mk());
        }
        if exact && nfail_pred == 0 && exit != Some(0) && matches!(prop, "C02" | "C03" | "C05" | "C06" | "C09" | "C17" | "C18") {
            rep.violation("unexpected-failure", &format!("no command was planned to fail but exit {:?}: {}", exit, String::from_utf8_lossy(&out.stdout).chars().rev().take(300).collect::<String>().chars().rev().collect::<String>()), mk());
            return false;
        }
        }
    } else if exit == Some(0) && matches!(prop, "C05" | "C18" | "C12") {
        rep.violation("expected-error-missing", &format!("model expects error {:?} but exit 0", exp_err), mk());
    } else if prop == "C18" && exp_err.as_deref().map(|e| e.contains("unknown path")).unwrap_or(false) && !started.is_empty() {
        rep.violation("unknown-target-but-started", &format!("a command-line name is unknown, yet {:?} were started", started), mk());
    } else if exit != Some(0) && matches!(prop, "C12" | "C18") {
        let so = String::from_utf8_lossy(&out.stdout);
        if !so.contains("n2: error: ") && inv.faults.is_empty() {
            rep.violation("diagnostic-prefix-missing", &format!("rejected without `n2: error: `: {:?}", so.chars().take(300).collect::<String>()), mk());
        }
    }
    // ---- C19: summary line
    if matches!(prop, "C19" | "C03") {
        let last = out.last_line();
        let n = ok_set.len();
        if exit == Some(0) {
            let want = if n == 0 { "n2: no work to do".to_string() } else { format!("n2: ran {} task{}, now up to date", n, if n == 1 { "" } else { "s" }) };
            if !summary_ok(&last, n) && !inv.adopt {
                rep.violation("summary-line", &format!("last line {:?}, expected {:?} ({} commands completed successfully)", last, want, n), mk());
            }
            if inv.adopt && (last != "n2: no work to do" || !started.is_empty()) {
                rep.violation("restat-not-silent", &format!("-t restat printed {:?} and started {:?}", last, started), mk());
            }
        }
    }
    // ---- C09: showIncludes lines are filtered, other output kept
    if prop == "C09" {
        let so = String::from_utf8_lossy(&out.stdout);
        if so.contains("Note: including file:") {
            rep.violation("showincludes-line-shown", "a `Note: including file:` line reached the user", mk());
        }
        // (only when n2 processed every completion: after a failed build, commands still running are orphans)
        for s in proj_before.steps.iter().filter(|s| s.msvc && ok_set.contains(&s.id) && exit == Some(0)) {
            if !so.contains(&format!("{}: compiling", s.id)) {
                rep.violation("output-line-lost", &format!("ordinary output line of {} missing from n2's output", s.id), mk());
            }
        }
    }
    // ---- C02: contents after success
    if exit == Some(0) && !inv.adopt && matches!(prop, "C02" | "C09" | "C17") {
        let p = &w.proj;
        let r2 = Rel::new(p);
        if let Some(clean) = clean_contents(p, &r2, &w.st.disk) {
            let tg: Vec<String> = p.effective_targets(&inv.targets).into_iter().filter(|t| *t != p.manifest).collect();
            for &si in &r2.closure(p, &tg) {
                let s = &p.steps[si];
                if s.phony || s.effect == Effect::Generator {
                    continue;
                }
                let written = match &s.effect {
                    Effect::NoOutput => 0,
                    Effect::SomeOutputs(k) => *k,
                    _ => usize::MAX,
                };
                for (oi, o) in s.all_outs().enumerate() {
                    if oi >= written {
                        continue;
                    }
                    rep.count("outputs_compared", 1);
                    let want = clean.get(o).copied().flatten();
                    let have = w.st.disk.get(o).map(|f| f.content);
                    if want != have {
                        rep.violation("stale-output", &format!("after exit 0, output {} of {} has content {:?}; a clean build gives {:?}", o, s.id, have, want), mk());
                    }
                }
            }
        }
    }
    true
}

fn general_case(ctx: &Ctx, env: &RealEnv, dir: &std::path::Path, case: u64, seed: u64, rep: &mut Report) {
    // C15 end to end: C09's histories with real depfiles only
    let depfiles_only = ctx.prop == "C15";
    let prop: &str = if depfiles_only { "C09" } else { &ctx.prop };
    let mut rng = Rng::new(seed);
    let mut opts = real_opts(prop, &mut rng);
    if prop == "C13" {
        opts.defaults = rng.chance(1, 2);
    }
    let proj = gen_project(&mut rng, &opts);
    let mut w = new_world(env, dir, proj, &mut rng);
    if prop == "C13" {
        // every path of the manifest in a spelling of its own, `default` targets included
        w.ropts.spell_seed = rng.next() | 1;
        w.write_manifest();
    }
    if depfiles_only {
        for s in w.proj.steps.iter_mut() {
            if s.msvc && s.depfile.is_none() {
                s.msvc = false;
                s.depfile = Some(format!("{}.d", s.outs[0]));
            }
        }
        w.write_manifest();
    }
    if prop == "C17" {
        let mut p = w.proj.clone();
        let gens = super::hist::make_generations(&mut p, &mut rng);
        w.proj = p;
        w.next_gens = gens
            .into_iter()
            .map(|mut g| {
                g.agent = w.proj.agent.clone();
                g
            })
            .collect();
        w.write_source("gen.in", rng.next());
        if w.proj.sources.iter().any(|s| s == "gen.h") {
            w.write_source("gen.h", rng.next());
        }
        // a generator that discovers inputs reports them through a depfile next to the manifest
        let dep = format!("{}.d", w.proj.manifest);
        let mut gens = std::mem::take(&mut w.next_gens);
        for p in std::iter::once(&mut w.proj).chain(gens.iter_mut()) {
            for s in p.steps.iter_mut().filter(|s| s.effect == Effect::Generator && s.discovers) {
                s.depfile = Some(dep.clone());
            }
        }
        w.next_gens = gens;
        if rng.chance(1, 3) {
            w.ropts.split_include = Some("rules.ninja".into());
        }
        w.write_manifest();
    }
    // C02, every third case: response files whose content changes (often without changing length)
    let rsp_case = prop == "C02" && case % 3 == 0;
    if rsp_case {
        let cands: Vec<usize> = (0..w.proj.steps.len()).filter(|&i| !w.proj.steps[i].phony && w.proj.steps[i].effect != Effect::Generator).collect();
        for &i in cands.iter().take(3) {
            let id = w.proj.steps[i].id.clone();
            w.proj.steps[i].rsp = Some((format!("{}.rsp", id), format!("content {:02}", rng.below(100))));
        }
        w.write_manifest();
    }
    let mut hist: Vec<J> = Vec::new();
    let nbuilds = rng.range(2, 4);
    let mut nontrivial = false;
    let mut sig = fnv(b"realcase");
    for b in 0..nbuilds {
        if ctx.expired() {
            break;
        }
        if b > 0 {
            let ne = rng.range(0, 2);
            for _ in 0..ne {
                if let Some(o) = super::hist::random_edit(prop, &mut rng, &mut w) {
                    hist.push(o);
                }
            }
            if rsp_case {
                for i in 0..w.proj.steps.len() {
                    if let Some((p, _)) = w.proj.steps[i].rsp.clone() {
                        if rng.chance(1, 2) {
                            w.proj.steps[i].rsp = Some((p, format!("content {:02}", rng.below(100))));
                        }
                    }
                }
                w.write_manifest();
                hist.push(J::s("response-file contents changed"));
            }
        }
        let mut inv = RInv::default();
        inv.j = *rng.pick(&[None, Some(1usize), Some(2), Some(3), Some(4), Some(8), Some(16)]);
        inv.k = *rng.pick(&[None, Some(1usize), Some(2), Some(100)]);
        if prop == "C05" {
            inv.k = *rng.pick(&[Some(1usize), Some(2), Some(3), Some(100)]);
        }
        if matches!(prop, "C18" | "C13") || rng.chance(1, 4) {
            let outs: Vec<String> = w.proj.steps.iter().flat_map(|s| s.outs.iter().cloned()).collect();
            if !outs.is_empty() && rng.chance(2, 3) {
                for _ in 0..rng.range(1, 3) {
                    let t = rng.pick(&outs).clone();
                    inv.targets.push(if rng.chance(1, 2) { respell(&t, &mut rng) } else { t });
                }
            }
        }
        if prop == "C18" && rng.chance(1, 5) {
            // a name that occurs nowhere; sometimes in ninja-compat mode (which must not make it acceptable)
            inv.targets.push(format!("no_such_target_{}", rng.below(1000)));
            if rng.chance(1, 2) {
                inv.pre_args = vec!["-d".into(), "ninja_compat".into()];
            }
        }
        let nonphony: Vec<String> = w.proj.steps.iter().filter(|s| !s.phony && s.effect != Effect::Generator).map(|s| s.id.clone()).collect();
        let fault_p = if prop == "C05" { 3 } else if prop == "C09" { 2 } else { 1 };
        if rng.chance(fault_p, 5) && !nonphony.is_empty() && matches!(prop, "C05" | "C01" | "C04" | "C19" | "C02" | "C09") {
            // C09: a failing compiler prints its include notes too -- prefer steps that print some
            let noisy: Vec<String> = w.proj.steps.iter().filter(|s| s.msvc && s.depfile.is_none() && s.discovers && !s.extra_reads.is_empty()).map(|s| s.id.clone()).collect();
            for _ in 0..rng.range(1, 2) {
                let s = if prop == "C09" && !noisy.is_empty() && rng.chance(1, 2) { rng.pick(&noisy).clone() } else { rng.pick(&nonphony).clone() };
                inv.faults.insert(s.clone(), *rng.pick(&[FailMode::Nothing, FailMode::All, FailMode::Some]));
                let how = rng.below(5);
                if how < 2 {
                    inv.exit_codes.insert(s, rng.range(1, 255) as i32);
                } else if how < 4 {
                    // the shell itself is killed (what n2 sees as a terminating signal)
                    inv.signals.insert(s, (*rng.pick(&[libc::SIGTERM, libc::SIGKILL, libc::SIGSEGV, libc::SIGHUP]), true));
                }
            }
            if prop == "C05" && rng.chance(1, 6) {
                let s = rng.pick(&nonphony).clone();
                inv.faults.insert(s, FailMode::Interrupt);
            }
        }
        // random sleeps diversify the interleavings
        for s in &nonphony {
            if rng.chance(1, 2) {
                inv.sleeps.insert(s.clone(), rng.below(if prop == "C04" { 25 } else { 12 }) as u64);
            }
        }
        if prop == "C03" && b > 0 && rng.chance(1, 5) {
            inv.adopt = true;
            inv.faults.clear();
        }
        scan(&mut w);
        let proj_before = w.proj.clone();
        let unc = w.uncertain.clone();
        let pred = predict_inv(&w, &inv.as_sim_inv());
        if ctx.verbose {
            eprintln!("PRED why1={:?} why2={:?} records={:#?}", pred.p1.why, pred.p2.as_ref().map(|p| p.1.why.clone()), w.st.records);
        }
        write_plan(env, &w, &inv, &mut rng);
        let out = run_real(env, &w, &inv);
        rep.evaluations += 1;
        let err = sync_after(&mut w, &proj_before, &inv, &out);
        hist.push(J::obj().with("build", inv.to_json()).with("started", J::strs(out.started())).with("exit", out.exit.map(J::i).unwrap_or(J::Null)));
        for e in &out.events {
            sig = fnv_combine(sig, fnv(e.step.as_bytes()) ^ e.kind as u64);
        }
        if let Some(e) = err {
            if matches!(prop, "C07" | "C08") {
                rep.violation("log-malformed", &e, J::obj().with("case", J::i(case)).with("history", J::Arr(hist.clone())));
            }
        }
        let go = judge_real(ctx, rep, case, &hist, &proj_before, &pred, &inv, &out, &w, &unc);
        let started = out.started();
        let ran: Vec<usize> = started.iter().filter_map(|s| proj_before.step_index(s)).collect();
        let rel = Rel::new(&proj_before);
        let edge = ran.iter().any(|&s| ran.iter().any(|&a| rel.ord_anc[s].contains(&a)));
        nontrivial |= match prop {
            "C01" => ran.len() >= 2 && edge,
            "C04" => out.max_overlap(&|_| true) >= 2,
            "C05" => !inv.faults.is_empty() && ran.len() >= 2,
            "C19" | "C18" | "C13" => !ran.is_empty(),
            _ => b > 0 && !ran.is_empty(),
        };
        if !go || out.exit != Some(0) && exp_is_error(&pred) {
            break;
        }
    }
    if nontrivial {
        rep.nontrivial.insert(sig);
        let h = hist.clone();
        rep.sample(|| J::obj().with("case", J::i(case)).with("history", J::Arr(h)));
    }
    let _ = BTreeMap::<u8, u8>::new();
}

fn exp_is_error(p: &super::PredInv) -> bool {
    p.error().is_some()
}
