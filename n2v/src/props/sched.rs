//! Scheduler-trace properties: C01, C04, C05, C06, C18, C19 (engine E1).
use super::{case_loop, predict_inv};
use crate::ap::*;
use crate::json::J;
use crate::model::*;
use crate::report::Report;
use crate::rng::{fnv, fnv_combine, Rng};
use crate::sim::*;
use crate::Ctx;
use std::collections::{BTreeMap, BTreeSet};

pub fn run(ctx: &Ctx, rep: &mut Report) {
    let dir = ctx.scratch.join("w");
    std::fs::create_dir_all(&dir).unwrap();
    case_loop(ctx, rep, |case, seed, rep| {
        one_case(ctx, &dir, case, seed, rep);
    });
}

fn gen_opts(prop: &str, rng: &mut Rng, thorough: bool) -> GenOpts {
    let mut o = GenOpts::default();
    o.max_steps = if thorough { 14 } else { 10 };
    match prop {
        "C04" => {
            o.effects = true;
            o.wide = true;
            o.max_steps = if thorough { 24 } else { 14 };
            o.min_steps = 4;
        }
        "C18" => {
            o.defaults = true;
        }
        "C06" => {
            // commands that report dependencies (some of which do not exist afterwards)
            o.discovers = rng.chance(1, 2);
        }
        "C19" => {
            o.phony = true;
        }
        _ => {}
    }
    if rng.chance(1, 3) {
        o.max_steps = o.max_steps.min(5);
    }
    o
}

/// Optionally make the manifest a generated file whose generator reproduces
/// the same text (so phase 1 settles steps that phase 2 reuses).
fn add_regen(p: &mut Project, rng: &mut Rng) {
    p.quiet_generator = rng.chance(1, 3);
    let mut ins = vec!["gen.in".to_string()];
    p.sources.push("gen.in".into());
    // share an input with user steps sometimes
    if rng.chance(1, 2) {
        if let Some(s) = p.sources.first().cloned() {
            if s != "gen.in" {
                ins.push(s);
            }
        }
    }
    // depend on a real generated file sometimes (settled in phase 1, reused in phase 2)
    let mut imps = vec![];
    if rng.chance(1, 2) {
        // up to two generated prerequisites (one may fail while the other succeeds)
        for s in p.steps.iter().filter(|s| !s.phony).take(rng.range(1, 2)) {
            imps.push(s.outs[0].clone());
        }
    }
    p.steps.push(Step {
        id: "gen".into(),
        outs: vec![p.manifest.clone()],
        iouts: vec![],
        ins,
        imps,
        oos: vec![],
        vals: vec![],
        phony: false,
        ver: 1,
        pool: None,
        rsp: None,
        depfile: None,
        msvc: false,
        desc: None,
        effect: Effect::Generator,
        extra_reads: vec![],
        discovers: false,
    });
}

struct CaseCfg {
    cyclic: Option<String>, // description of injected cycle
    cycle_is_validation_only: bool,
    undeclared_pool: Option<String>,
}

fn inject_cycle(p: &mut Project, rng: &mut Rng, validation: bool) -> Option<String> {
    // pick two non-phony steps a (earlier) and b (later) with b depending (ordering) on a,
    // then make a depend on an output of b.
    let rel = Rel::new(p);
    let mut pairs = Vec::new();
    for b in 0..p.steps.len() {
        for &a in &rel.ord_anc[b] {
            pairs.push((a, b));
        }
    }
    if pairs.is_empty() {
        // self loop on step 0 output
        if p.steps.is_empty() {
            return None;
        }
        let i = rng.below(p.steps.len());
        let o = p.steps[i].outs[0].clone();
        if validation {
            p.steps[i].vals.push(o.clone());
        } else {
            p.steps[i].ins.push(o.clone());
        }
        return Some(format!("self-loop on {}", o));
    }
    let (a, b) = *rng.pick(&pairs);
    let o = rng.pick(&p.steps[b].all_outs().cloned().collect::<Vec<_>>()).clone();
    if p.steps[a].all_ins().any(|x| *x == o) {
        return None;
    }
    if validation {
        p.steps[a].vals.push(o.clone());
    } else {
        match rng.below(3) {
            0 => p.steps[a].ins.push(o.clone()),
            1 => p.steps[a].imps.push(o.clone()),
            _ => p.steps[a].oos.push(o.clone()),
        }
    }
    Some(format!("{} -> {} via {}", p.steps[a].id, p.steps[b].id, o))
}

fn config_hash(inv: &Inv) -> u64 {
    let mut h = fnv(b"cfg");
    h = fnv_combine(h, inv.j as u64);
    h = fnv_combine(h, inv.k.map(|k| k as u64 + 1).unwrap_or(0));
    for t in &inv.targets {
        h = fnv_combine(h, fnv(t.as_bytes()));
    }
    for (s, f) in &inv.faults {
        h = fnv_combine(h, fnv(s.as_bytes()) ^ (*f as u64));
    }
    h
}

fn one_case(ctx: &Ctx, dir: &std::path::Path, case: u64, seed: u64, rep: &mut Report) {
    let prop: &str = &ctx.prop;
    let mut rng = Rng::new(seed);
    let opts = gen_opts(prop, &mut rng, ctx.thorough());
    let mut proj = gen_project(&mut rng, &opts);
    // C04, one case in ten: a pool deeper than everyday ones (at or above the machine's core count) with
    // more ready members than its depth, run with -j above the depth
    let mut deep_pool: Option<usize> = None;
    if prop == "C04" && rng.chance(1, 10) {
        let depth = *rng.pick(&[8usize, 15, 16, 17, 20, 24, 32, 33]);
        deep_pool = Some(depth);
        let n = depth + rng.range(2, 12);
        let mut p = Project { manifest: proj.manifest.clone(), ..Default::default() };
        p.sources.push("in.txt".into());
        p.pools.push(("deep".into(), depth));
        for i in 0..n {
            p.steps.push(Step {
                id: format!("t{}", i),
                outs: vec![format!("o{}", i)],
                iouts: vec![],
                ins: vec!["in.txt".into()],
                imps: vec![],
                oos: vec![],
                vals: vec![],
                phony: false,
                ver: 1,
                pool: if rng.chance(9, 10) { Some("deep".into()) } else { None },
                rsp: None,
                depfile: None,
                msvc: false,
                desc: None,
                effect: Effect::Write,
                extra_reads: vec![],
                discovers: false,
            });
        }
        proj = p;
    }
    let mut cfg = CaseCfg { cyclic: None, cycle_is_validation_only: false, undeclared_pool: None };
    if matches!(prop, "C06" | "C19" | "C01" | "C18" | "C05") && rng.chance(1, 5) {
        add_regen(&mut proj, &mut rng);
    }
    let mut c04_regen = false;
    if prop == "C04" && !proj.pools.is_empty() && rng.chance(1, 5) {
        add_regen(&mut proj, &mut rng);
        c04_regen = true;
    }
    if prop == "C19" && rng.chance(1, 6) {
        // a real step whose command evaluates to "": not phony, runs, writes nothing
        let cands: Vec<usize> = (0..proj.steps.len()).filter(|&i| !proj.steps[i].phony && proj.steps[i].effect == Effect::Write).collect();
        if !cands.is_empty() {
            let i = *rng.pick(&cands);
            proj.steps[i].ver = 0;
            proj.steps[i].effect = Effect::NoOutput;
        }
    }
    if prop == "C06" && rng.chance(1, 5) {
        // a command that succeeds but leaves some of its declared outputs unwritten (the first one is
        // written, later ones are not); consumers of any of them must still get a decision
        let cands: Vec<usize> = (0..proj.steps.len()).filter(|&i| !proj.steps[i].phony && proj.steps[i].effect == Effect::Write && proj.steps[i].outs.len() + proj.steps[i].iouts.len() >= 2).collect();
        if !cands.is_empty() {
            let i = *rng.pick(&cands);
            proj.steps[i].effect = Effect::SomeOutputs(1);
        }
    }
    if prop == "C06" && rng.chance(1, 4) {
        // a scratch header: reported by the command, gone when it finishes
        let cands: Vec<usize> = (0..proj.steps.len()).filter(|&i| proj.steps[i].discovers).collect();
        if !cands.is_empty() {
            let i = *rng.pick(&cands);
            proj.steps[i].extra_reads.push(format!("scratch{}.h", i));
        }
    }
    if prop == "C06" && rng.chance(1, 3) {
        let validation = rng.chance(1, 2);
        cfg.cyclic = inject_cycle(&mut proj, &mut rng, validation);
        cfg.cycle_is_validation_only = validation;
    }
    if prop == "C04" && rng.chance(1, 8) {
        let cands: Vec<usize> = (0..proj.steps.len()).filter(|&i| !proj.steps[i].phony).collect();
        if !cands.is_empty() {
            let i = *rng.pick(&cands);
            proj.steps[i].pool = Some("nopool".into());
            cfg.undeclared_pool = Some(proj.steps[i].id.clone());
        }
    }
    clear_dir(dir);
    let mut world = World::new(dir.to_path_buf(), proj);
    // generator reproduces the same project (for C04: with other pool depths)
    if world.proj.steps.iter().any(|s| s.effect == Effect::Generator) {
        for _ in 0..4 {
            let mut np = world.next_gens.last().cloned().unwrap_or_else(|| world.proj.clone());
            if c04_regen {
                for p in np.pools.iter_mut() {
                    p.1 = rng.below(4);
                }
            }
            if matches!(prop, "C18" | "C19") && rng.chance(1, 2) {
                // the regenerated manifest gains a statement in front: every internal number shifts
                let n = np.steps.len();
                let src = np.sources[0].clone();
                let id = format!("x{}", n);
                np.steps.insert(
                    0,
                    Step {
                        id: id.clone(),
                        outs: vec![format!("extra_{}", id)],
                        iouts: vec![],
                        ins: vec![src],
                        imps: vec![],
                        oos: vec![],
                        vals: vec![],
                        phony: false,
                        ver: 1,
                        pool: None,
                        rsp: None,
                        depfile: None,
                        msvc: false,
                        desc: None,
                        effect: Effect::Write,
                        extra_reads: vec![],
                        discovers: false,
                    },
                );
            }
            world.next_gens.push(np);
        }
    }
    if matches!(prop, "C18" | "C17" | "C04") && rng.chance(1, 2) {
        world.ropts.via_vars = true;
    }
    // the same graph under other spellings: noisy paths (leading ./, x/../, doubled and mixed separators)
    // and paths written through block variables that shadow file-level ones
    if rng.chance(1, 4) {
        world.ropts.spell_seed = rng.next() | 1;
    }
    if rng.chance(1, 4) {
        world.ropts.shadow_seed = rng.next() | 1;
    }
    world.init_sources(&mut rng);
    world.write_manifest();

    let rel = Rel::new(&world.proj);
    let ordering_cyclic = (0..world.proj.steps.len()).any(|s| rel.ord_anc[s].contains(&s));
    let nsteps = world.proj.steps.len();

    // initial state: fresh, or built then edited
    let init = rng.below(3);
    if init > 0 && !ordering_cyclic && cfg.undeclared_pool.is_none() {
        let inv = Inv { j: 64, k: None, policy: Policy::Fifo, seed: rng.next(), ..Default::default() };
        let (w, out) = run_inv(world, &inv);
        world = w;
        rep.evaluations += 1;
        collect(rep, prop, &out, &world, &inv, case, "initial-build");
        // edits
        let nedits = rng.range(0, 3);
        for _ in 0..nedits {
            let srcs = world.proj.sources.clone();
            let outs: Vec<String> = world.proj.steps.iter().filter(|s| !s.phony && s.effect != Effect::Generator).flat_map(|s| s.all_outs().cloned()).collect();
            match rng.below(4) {
                0 => {
                    let s = rng.pick(&srcs).clone();
                    let c = rng.next();
                    world.write_source(&s, c);
                }
                1 => {
                    let s = rng.pick(&srcs).clone();
                    world.touch(&s);
                }
                2 if !outs.is_empty() => {
                    let o = rng.pick(&outs).clone();
                    world.delete(&o);
                }
                _ if !outs.is_empty() => {
                    let o = rng.pick(&outs).clone();
                    world.touch(&o);
                }
                _ => {}
            }
        }
    }

    // invocation configuration
    let mut inv = Inv::default();
    inv.seed = rng.next();
    inv.j = *rng.pick(&[1usize, 2, 3, 4, 8, 64]);
    if prop == "C04" {
        inv.j = *rng.pick(&[1usize, 2, 3, 4, 5, 8]);
        if let Some(d) = deep_pool {
            inv.j = *rng.pick(&[d + 1, d + 4, 2 * d, 64, 100]);
        }
    }
    inv.k = *rng.pick(&[None, Some(1usize), Some(1), Some(2), Some(3), Some(100)]);
    if prop == "C05" {
        inv.k = *rng.pick(&[Some(1usize), Some(2), Some(3), Some(100)]);
    }
    let all_outs: Vec<String> = world.proj.steps.iter().flat_map(|s| s.outs.iter().cloned()).collect();
    let want_subset = match prop {
        "C18" => rng.chance(2, 3),
        _ => rng.chance(1, 4),
    };
    if want_subset && !all_outs.is_empty() {
        let k = rng.range(1, 4.min(all_outs.len()));
        for _ in 0..k {
            let t = rng.pick(&all_outs).clone();
            // C13: any spelling of the target
            let t = if rng.chance(1, 3) { respell(&t, &mut rng) } else { t };
            inv.targets.push(t);
        }
    }
    let nonphony: Vec<String> = world.proj.steps.iter().filter(|s| !s.phony).map(|s| s.id.clone()).collect();
    let fault_prob = match prop {
        "C05" => (4, 5),
        "C19" | "C06" | "C04" => (1, 3),
        _ => (1, 4),
    };
    if rng.chance(fault_prob.0, fault_prob.1) && !nonphony.is_empty() {
        let nf = rng.range(1, 3.min(nonphony.len()));
        for _ in 0..nf {
            let s = rng.pick(&nonphony).clone();
            let m = *rng.pick(&[FailMode::Nothing, FailMode::All, FailMode::Some, FailMode::Nothing]);
            inv.faults.insert(s, m);
        }
        if rng.chance(1, 10) {
            let s = rng.pick(&nonphony).clone();
            inv.faults.insert(s, FailMode::Interrupt);
        }
    }
    inv.policy = match rng.below(6) {
        0 => Policy::Fifo,
        1 => Policy::Lifo,
        2 if prop == "C04" => Policy::KeepFull,
        _ => Policy::Random,
    };
    if prop == "C04" && rng.chance(1, 2) {
        inv.policy = Policy::KeepFull;
    }
    // C01(d)/C06: hold validation targets until nothing else runs
    let mut hold_case = false;
    if matches!(prop, "C01" | "C06") && rng.chance(1, 3) && inv.faults.is_empty() {
        let mut hold = BTreeSet::new();
        for s in &world.proj.steps {
            for v in &s.vals {
                if let Some(&pi) = rel.producer.get(v) {
                    if !world.proj.steps[pi].phony {
                        hold.insert(world.proj.steps[pi].id.clone());
                    }
                }
            }
        }
        if !hold.is_empty() {
            inv.policy = Policy::Hold(hold);
            inv.j = 64;
            hold_case = true;
        }
    }

    // how many commands would run at most: decides systematic vs sampled
    let pred = predict_inv(&world, &inv);
    let predicted_runs: usize = pred.p1.run.len() + pred.p2.as_ref().map(|(_, p)| p.run.len()).unwrap_or(0);
    let dfs_limit = if ctx.thorough() { 7 } else { 5 };
    let systematic = !hold_case && predicted_runs >= 2 && predicted_runs <= dfs_limit && rng.chance(2, 3);

    let snap = world.snapshot();
    let max_runs = if ctx.thorough() { 6000 } else { 800 };
    let mut runs = 0usize;
    let mut script: Vec<usize> = vec![];
    let mut dfs_complete = false;
    let mut diverged = false;
    let mut last_out;
    loop {
        if runs > 0 {
            world.restore(&snap);
        }
        let mut inv_run = inv.clone();
        if systematic {
            inv_run.script = script.clone();
            inv_run.policy = Policy::Fifo;
            inv_run.systematic = true;
        }
        let (w, out) = run_inv(world, &inv_run);
        world = w;
        runs += 1;
        rep.evaluations += 1;
        diverged |= out.script_diverged;
        judge(rep, ctx, &out, &world, &snap, &inv_run, &cfg, &pred, case, hold_case, ordering_cyclic, nsteps);
        last_out = out;
        if !systematic {
            break;
        }
        // next script in DFS order
        let mut ch = last_out.choices.clone();
        let mut next = None;
        while let Some((c, n)) = ch.pop() {
            if c + 1 < n {
                let mut s: Vec<usize> = ch.iter().map(|x| x.0).collect();
                s.push(c + 1);
                next = Some(s);
                break;
            }
        }
        match next {
            None => {
                dfs_complete = true;
                break;
            }
            Some(s) => script = s,
        }
        if runs >= max_runs || ctx.expired() {
            break;
        }
    }
    if systematic {
        rep.count("dfs_cases", 1);
        rep.count("dfs_runs", runs as u64);
        if dfs_complete && !diverged {
            rep.count("dfs_complete_cases", 1);
            let nonbinding = inv.j >= nsteps && world.proj.pools.iter().all(|(_, d)| *d == 0);
            if nonbinding {
                rep.count("dfs_complete_nonbinding_cases", 1);
            }
        }
        if diverged {
            rep.count("dfs_diverged_cases", 1);
        }
    }

    // C05 / C06 follow-up: a fault-free invocation afterwards must run exactly what the model predicts
    if matches!(prop, "C05" | "C06" | "C19") && !ordering_cyclic && cfg.undeclared_pool.is_none() {
        let mut fu = Inv { targets: inv.targets.clone(), j: 64, k: None, policy: Policy::Random, seed: rng.next(), ..Default::default() };
        if prop == "C19" && rng.chance(1, 3) {
            // `-t restat`: no command runs, so the reported task count must be zero
            fu.adopt = true;
        }
        let pred2 = predict_inv(&world, &fu);
        let proj_fu = world.proj.clone();
        let (w, out2) = run_inv(world, &fu);
        world = w;
        rep.evaluations += 1;
        collect(rep, prop, &out2, &world, &fu, case, "follow-up");
        if pred2.error().is_none() {
            let exp = pred2.expected_runs(&proj_fu);
            let got: Vec<Vec<String>> = out2
                .started
                .iter()
                .map(|v| {
                    let mut v = v.clone();
                    v.sort();
                    v
                })
                .collect();
            // compare flattened per epoch
            let ok = exp.len() == got.len() && exp.iter().zip(got.iter()).all(|(a, b)| a == b);
            if !ok && matches!(prop, "C05" | "C06") {
                let mut c = case_json(case, &snap.proj, &inv, Some(&last_out));
                c.set("followup", out2.trace_json());
                rep.violation(
                    "followup-runset-differs",
                    &format!("after a build with faults {:?}, the next fault-free build started {:?} but the model predicts {:?}", inv.faults, got, exp),
                    c,
                );
            }
            rep.count("followups_checked", 1);
            if !matches!(out2.result, InvResult::Success(_)) {
                let c = case_json(case, &snap.proj, &fu, Some(&out2));
                if matches!(prop, "C05" | "C06") {
                    rep.violation("followup-not-successful", &format!("fault-free follow-up build ended {:?}", out2.result), c);
                }
            }
        }
    }
    let _ = world;
}

pub fn case_json(case: u64, proj: &Project, inv: &Inv, out: Option<&InvOut>) -> J {
    let mut j = J::obj()
        .with("case", J::i(case))
        .with("project", proj.to_json())
        .with("invocation", inv.to_json());
    if let Some(o) = out {
        j.set("trace", o.trace_json());
        j.set("choices", J::Arr(o.choices.iter().map(|c| J::i(c.0)).collect()));
    }
    j
}

/// Record violations of `prop` from an auxiliary invocation (initial build, follow-up).
fn collect(rep: &mut Report, prop: &str, out: &InvOut, world: &World, inv: &Inv, case: u64, what: &str) {
    for v in &out.viols {
        if v.prop == prop {
            let mut c = case_json(case, &world.proj, inv, Some(out));
            c.set("phase", J::s(what));
            rep.violation(&v.sig, &v.detail, c);
        } else {
            *rep.other_prop_viols.entry(format!("{}:{}", v.prop, v.sig)).or_insert(0) += 1;
        }
    }
    rep.count("events", out.events.len() as u64);
    rep.count("loop_iterations_observed", out.loop_iters as u64);
}

#[allow(clippy::too_many_arguments)]
fn judge(
    rep: &mut Report,
    ctx: &Ctx,
    out: &InvOut,
    world: &World,
    snap: &Snapshot,
    inv: &Inv,
    cfg: &CaseCfg,
    pred: &super::PredInv,
    case: u64,
    hold_case: bool,
    ordering_cyclic: bool,
    nsteps: usize,
) {
    let prop: &str = &ctx.prop;
    let proj = &snap.proj;
    let rel = Rel::new(proj);
    for v in &out.viols {
        if v.prop == prop {
            rep.violation(&v.sig, &v.detail, case_json(case, proj, inv, Some(out)));
        } else {
            *rep.other_prop_viols.entry(format!("{}:{}", v.prop, v.sig)).or_insert(0) += 1;
        }
    }
    rep.count("events", out.events.len() as u64);
    rep.count("loop_iterations_observed", out.loop_iters as u64);
    rep.count("progress_updates_observed", out.progress_updates as u64);
    rep.max("max_concurrency_seen", out.max_running as u64);
    rep.count("limit_binding_instants", out.binding_instants as u64);
    rep.interleavings.insert(out.interleaving_hash());
    if out.epochs >= 2 {
        rep.count("invocations_with_reload", 1);
    }

    let started: BTreeSet<String> = out.started.iter().flatten().cloned().collect();
    let wanted_targets = proj.effective_targets(&inv.targets);
    let _ = wanted_targets;
    let closure = wanted_for(proj, &rel, inv);
    let predicted_error = pred.error();

    // ---- property-specific end-of-invocation checks
    match prop {
        "C01" => {
            if hold_case {
                if let Policy::Hold(hold) = &inv.policy {
                    check_no_validation_ordering(rep, out, proj, &rel, hold, inv, case);
                }
            }
        }
        "C04" => {
            if let Some(sid) = &cfg.undeclared_pool {
                let si = proj.step_index(sid).unwrap();
                // over both phases of the invocation
                let runs = pred.expected_runs(proj).iter().flatten().any(|s| s == sid);
                let blocked = pred.p1.blocked.contains(&si) || pred.p2.as_ref().map(|(p2, pr)| p2.step_index(sid).map(|i| pr.blocked.contains(&i)).unwrap_or(false)).unwrap_or(false);
                let needs_run = runs || blocked;
                // (an error that names the pool; its wording is n2's business)
                let pool_name = proj.steps[si].pool.clone().unwrap_or_default();
                let got_err = matches!(&out.result, InvResult::Error(e) if e.contains("unknown pool") || (!pool_name.is_empty() && e.contains(&pool_name) && e.to_lowercase().contains("pool")));
                let in_closure = closure.contains(&si);
                // Only decidable when nothing interferes: no faults and the step is reached.
                if inv.faults.is_empty() && predicted_error.is_none() {
                    if in_closure && runs && !got_err {
                        rep.violation("undeclared-pool-not-reported", &format!("step {} names an undeclared pool and needs to run, result {:?}", sid, out.result), case_json(case, proj, inv, Some(out)));
                    }
                    if got_err && !(in_closure && needs_run) {
                        rep.violation("undeclared-pool-error-unneeded", &format!("unknown pool error although step {} did not need to run", sid), case_json(case, proj, inv, Some(out)));
                    }
                    rep.count("undeclared_pool_cases", 1);
                }
            }
        }
        "C05" => {
            // exit status vs. outcome; containment is checked online; budget checked online.
            let nfail = out.failed_steps.len();
            let interrupted = out.events.iter().any(|e| matches!(e, Ev::Finish { term: n2::verif::SimTermination::Interrupted, .. }));
            match &out.result {
                InvResult::Success(_) => {
                    if nfail > 0 || interrupted {
                        rep.violation("success-with-failure", "success although a command failed", case_json(case, proj, inv, Some(out)));
                    }
                }
                InvResult::Failed => {}
                InvResult::Error(_) => {}
                other => {
                    if !matches!(other, InvResult::Panic(_)) {
                        rep.inconclusive.push(format!("case {}: {:?}", case, other));
                    }
                }
            }
            check_runs_everything_runnable(rep, out, proj, &rel, pred, inv, cfg, &started, predicted_error.is_some(), case);
            if predicted_error.is_some() && matches!(out.result, InvResult::Success(_)) {
                rep.violation("success-despite-rejected-graph", &format!("expected error {:?}", predicted_error), case_json(case, proj, inv, Some(out)));
            }
        }
        "C06" => {
            // "if some fail it stops as soon as nothing further can run": not earlier
            check_runs_everything_runnable(rep, out, proj, &rel, pred, inv, cfg, &started, predicted_error.is_some(), case);
            match &out.result {
                InvResult::HarnessStop(r) => {
                    // already recorded online as a C06 violation
                    let _ = r;
                }
                InvResult::Panic(_) => {}
                _ => {}
            }
            let cyc_in_closure = closure.iter().any(|&s| rel.ord_anc[s].contains(&s));
            if cyc_in_closure {
                rep.count("cyclic_cases", 1);
                match &out.result {
                    InvResult::Error(e) if e.starts_with("dependency cycle: ") => {
                        // nothing starts in the phase that reports the cycle, and no step on a cycle ever starts
                        let last_epoch_starts = out.started.last().map(|v| v.len()).unwrap_or(0);
                        let cyc_started: Vec<&String> = started.iter().filter(|s| proj.step_index(s).map(|i| rel.ord_anc[i].contains(&i)).unwrap_or(false)).collect();
                        if last_epoch_starts > 0 || !cyc_started.is_empty() {
                            rep.violation("cycle-with-starts", &format!("cycle reported but {:?} were started", started), case_json(case, proj, inv, Some(out)));
                        }
                        // the listed names must be a real cycle
                        let names: Vec<&str> = e["dependency cycle: ".len()..].split(" -> ").collect();
                        let mut real = names.len() >= 2 && names.first() == names.last();
                        for w in names.windows(2) {
                            // w[0] is an output whose producer has w[1] among its ordering inputs
                            match rel.producer.get(w[0]) {
                                Some(&pi) => {
                                    if !proj.steps[pi].ordering().any(|f| f == w[1]) {
                                        real = false;
                                    }
                                }
                                None => real = false,
                            }
                        }
                        if !real {
                            rep.violation("cycle-error-not-a-cycle", &format!("reported {:?} which is not a cycle of the graph", e), case_json(case, proj, inv, Some(out)));
                        }
                    }
                    InvResult::Failed if !out.failed_steps.is_empty() => {
                        // a failure in the regeneration phase ended the invocation first
                        rep.count("cycle_masked_by_phase1_failure", 1);
                    }
                    other => {
                        rep.violation("cycle-not-reported", &format!("ordering cycle reachable from the targets but result {:?}", other), case_json(case, proj, inv, Some(out)));
                    }
                }
            } else {
                if let InvResult::Error(e) = &out.result {
                    if e.starts_with("dependency cycle") {
                        rep.violation("false-cycle", &format!("no ordering cycle among the requested steps but n2 reports {:?}", e), case_json(case, proj, inv, Some(out)));
                    }
                }
                if cfg.cyclic.is_some() && cfg.cycle_is_validation_only {
                    rep.count("validation_cycle_cases", 1);
                }
                if inv.faults.is_empty() && predicted_error.is_none() && cfg.undeclared_pool.is_none() {
                    if !matches!(out.result, InvResult::Success(_)) {
                        rep.violation("no-fault-build-not-successful", &format!("no command fails but result {:?}", out.result), case_json(case, proj, inv, Some(out)));
                    }
                }
            }
            if hold_case && !cyc_in_closure {
                if let Policy::Hold(hold) = &inv.policy {
                    check_no_validation_ordering(rep, out, proj, &rel, hold, inv, case);
                }
            }
        }
        "C18" => {
            // fresh tree, no failures: started set == non-phony steps of the closure
            if predicted_error.is_none() && inv.faults.is_empty() && !ordering_cyclic {
                let exp = pred.expected_runs(proj);
                let got: Vec<Vec<String>> = out.started.iter().map(|v| { let mut v = v.clone(); v.sort(); v }).collect();
                if matches!(out.result, InvResult::Success(_)) && exp != got {
                    rep.violation("runset-differs", &format!("targets {:?}: started {:?}, model predicts {:?}", inv.targets, got, exp), case_json(case, proj, inv, Some(out)));
                }
                // an acyclic graph and known targets: the closure is brought up to date, not refused
                if let InvResult::Error(e) = &out.result {
                    if cfg.undeclared_pool.is_none() {
                        rep.violation("closure-refused", &format!("targets {:?}: nothing wrong with the request, but n2 reports {:?}", inv.targets, e), case_json(case, proj, inv, Some(out)));
                    }
                }
            }
        }
        "C19" => {}
        _ => {}
    }

    // ---- non-triviality
    let ran: Vec<usize> = started.iter().filter_map(|s| proj.step_index(s)).collect();
    let edge_between_ran = ran.iter().any(|&s| ran.iter().any(|&a| rel.ord_anc[s].contains(&a)));
    let nontrivial = match prop {
        "C01" => ran.len() >= 2 && edge_between_ran,
        "C04" => out.binding_instants > 0 && !ran.is_empty(),
        "C05" => {
            let failed_idx: BTreeSet<usize> = out.failed_steps.iter().filter_map(|s| proj.step_index(s)).collect();
            let blocked = closure.iter().any(|&s| rel.ord_anc[s].iter().any(|a| failed_idx.contains(a)));
            let unblocked_ran = ran.iter().any(|s| !failed_idx.contains(s));
            !failed_idx.is_empty() && blocked && unblocked_ran
        }
        "C06" => {
            let waits2 = ran.iter().any(|&s| rel.ord_pred[s].iter().filter(|a| ran.contains(a)).count() >= 2);
            (nsteps >= 3 && waits2) || cfg.cyclic.is_some()
        }
        "C18" => !closure.is_empty() && closure.len() < proj.steps.len(),
        "C19" => {
            let phony_wanted = closure.iter().any(|&s| proj.steps[s].phony);
            let uptodate = closure.iter().any(|&s| !proj.steps[s].phony && !started.contains(&proj.steps[s].id));
            phony_wanted && uptodate && !ran.is_empty()
        }
        _ => false,
    };
    if nontrivial {
        let sig = fnv_combine(fnv_combine(proj.shape_hash(), config_hash(inv)), out.interleaving_hash());
        rep.nontrivial.insert(sig);
    }
    let _ = world;
    if nontrivial {
        rep.sample(|| case_json(case, proj, inv, Some(out)));
    }
}

/// C01(d): with everything startable at once and the validation targets held
/// back, a step must have started before its validation target finishes.
fn check_no_validation_ordering(
    rep: &mut Report,
    out: &InvOut,
    proj: &Project,
    rel: &Rel,
    hold: &BTreeSet<String>,
    inv: &Inv,
    case: u64,
) {
    if !matches!(out.result, InvResult::Success(_)) || out.epochs != 1 {
        return;
    }
    let pos = |pred: &dyn Fn(&Ev) -> bool| out.events.iter().position(|e| pred(e));
    let hold_idx: BTreeSet<usize> = hold.iter().filter_map(|h| proj.step_index(h)).collect();
    for (si, s) in proj.steps.iter().enumerate() {
        if s.phony || hold_idx.contains(&si) || rel.ord_anc[si].iter().any(|a| hold_idx.contains(a)) {
            continue;
        }
        // a pool shared with held steps can legitimately delay the start of
        // the step or of one of its ordering ancestors
        let pooled = |x: usize| -> bool {
            match &proj.steps[x].pool {
                Some(pl) => proj.pools.iter().find(|(n, _)| n == pl).map(|(_, d)| *d).unwrap_or(1) > 0,
                None => false,
            }
        };
        if pooled(si) || rel.ord_anc[si].iter().any(|&a| pooled(a)) {
            continue;
        }
        let Some(st) = pos(&|e| matches!(e, Ev::Start { step } if *step == s.id)) else { continue };
        for v in &s.vals {
            let Some(&pi) = rel.producer.get(v) else { continue };
            if !hold_idx.contains(&pi) {
                continue;
            }
            let hid = &proj.steps[pi].id;
            if let Some(fin) = pos(&|e| matches!(e, Ev::Finish { step, .. } if step == hid)) {
                rep.count("validation_pairs_checked", 1);
                if fin < st {
                    rep.violation(
                        "waited-for-validation",
                        &format!("{} started only after its validation target {} finished although nothing else blocked it", s.id, hid),
                        case_json(case, proj, inv, Some(out)),
                    );
                }
            }
        }
    }
    let _ = BTreeMap::<u8, u8>::new();
}

/// After a build that failed with the budget not exhausted, every dirty wanted step that is not
/// downstream of an actual failure must have been started (C05: "still brought up to date";
/// C06: "stops as soon as nothing further can run", not before).
#[allow(clippy::too_many_arguments)]
fn check_runs_everything_runnable(
    rep: &mut Report,
    out: &InvOut,
    proj: &Project,
    rel: &Rel,
    pred: &super::PredInv,
    inv: &Inv,
    cfg: &CaseCfg,
    started: &BTreeSet<String>,
    predicted_error: bool,
    case: u64,
) {
    let nfail = out.failed_steps.len();
    let interrupted = out.events.iter().any(|e| matches!(e, Ev::Finish { term: n2::verif::SimTermination::Interrupted, .. }));
    if let InvResult::Failed = &out.result {
        let budget_reached = inv.k.map(|k| nfail >= k).unwrap_or(false);
        if !budget_reached && !interrupted && !predicted_error && cfg.undeclared_pool.is_none() {
            let failed_idx: BTreeSet<usize> = out.failed_steps.iter().filter_map(|s| proj.step_index(s)).collect();
            for &si in pred.p1.run.iter() {
                let blocked = rel.ord_anc[si].iter().any(|a| failed_idx.contains(a));
                if !blocked && !started.contains(&proj.steps[si].id) && !pred.two_phase {
                    rep.violation(
                        "unblocked-step-not-run",
                        &format!("{} failed (< budget {:?}) but dirty step {} not downstream of a failure was never started", nfail, inv.k, proj.steps[si].id),
                        case_json(case, proj, inv, Some(out)),
                    );
                }
            }
        }
    }
}
