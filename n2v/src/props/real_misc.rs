//! Black-box workloads for C07 (every byte prefix of a real log), C12
//! (process-level diagnostics) and C18 (-C / -f / builddir).
use super::realp::*;
use crate::ap::*;
use crate::json::J;
use crate::model::*;
use crate::real::*;
use crate::report::Report;
use crate::rng::{fnv, fnv_combine, Rng};
use crate::sim::clear_dir;
use crate::Ctx;
use std::collections::BTreeSet;
use std::path::Path;

fn copy_tree(src: &Path, dst: &Path) {
    let _ = std::fs::create_dir_all(dst);
    if let Ok(rd) = std::fs::read_dir(src) {
        for e in rd.flatten() {
            let p = e.path();
            let d = dst.join(e.file_name());
            if p.is_dir() {
                copy_tree(&p, &d);
            } else {
                let _ = std::fs::copy(&p, &d);
                if let (Ok(m), Ok(f)) = (std::fs::metadata(&p), std::fs::File::options().write(true).open(&d)) {
                    if let Ok(t) = m.modified() {
                        let _ = f.set_modified(t);
                    }
                }
            }
        }
    }
}

/// C07, hook-free: build for real, then for every byte prefix of the log n2
/// wrote, run n2 twice on a copy of the tree.
pub fn c07_prefix_case(ctx: &Ctx, env: &RealEnv, dir: &Path, case: u64, seed: u64, rep: &mut Report) {
    let mut rng = Rng::new(seed);
    let mut opts = GenOpts::default();
    opts.min_steps = 2;
    opts.max_steps = 6;
    opts.discovers = true;
    opts.pools = false;
    let proj = gen_project(&mut rng, &opts);
    let mut w = new_world(env, dir, proj, &mut rng);
    let inv = RInv { j: Some(4), ..Default::default() };
    scan(&mut w);
    write_plan(env, &w, &inv, &mut rng);
    let pb = w.proj.clone();
    let out = run_real(env, &w, &inv);
    rep.evaluations += 1;
    if out.exit != Some(0) || out.timed_out {
        return;
    }
    sync_after(&mut w, &pb, &inv, &out);
    let full = std::fs::read(w.db_path()).unwrap_or_default();
    let parsed_full = crate::dbfmt::parse_db(&full);
    let nbuild_full = crate::dbfmt::named_builds(&parsed_full).len();
    if nbuild_full != w.st.records.len() {
        rep.inconclusive.push(format!("case {}: log has {} build records, model {}", case, nbuild_full, w.st.records.len()));
        return;
    }
    let golden = dir.with_file_name("golden");
    let _ = std::fs::remove_dir_all(&golden);
    copy_tree(dir, &golden);
    let all_records = w.st.records.clone();
    let step = if ctx.thorough() { 1 } else { 3 };
    let mut n = rng.below(step);
    let mut hist = vec![J::obj().with("full-build", J::strs(out.started())).with("log_bytes", J::i(full.len()))];
    while n < full.len() {
        if ctx.expired() {
            break;
        }
        clear_dir(dir);
        copy_tree(&golden, dir);
        std::fs::write(w.db_path(), &full[..n]).unwrap();
        let parsed = crate::dbfmt::parse_db(&full[..n]);
        let k = crate::dbfmt::named_builds(&parsed).len();
        w.st.records = all_records[..k].to_vec();
        scan(&mut w);
        let inv2 = RInv { j: Some(4), ..Default::default() };
        let pred = super::predict_inv(&w, &inv2.as_sim_inv());
        write_plan(env, &w, &inv2, &mut rng);
        let o2 = run_real(env, &w, &inv2);
        rep.evaluations += 1;
        rep.count("prefixes", 1);
        let mid = parsed.torn;
        if mid {
            rep.count("prefixes_mid_record", 1);
            rep.nontrivial.insert(fnv_combine(fnv_combine(pb.shape_hash(), n as u64), full.len() as u64));
        }
        let mut h = hist.clone();
        h.push(J::obj().with("log-truncated-to", J::i(n)).with("complete_build_records", J::i(k)).with("started", J::strs(o2.started())).with("exit", o2.exit.map(J::i).unwrap_or(J::Null)));
        let mk = |o: &ROut| J::obj().with("case", J::i(case)).with("project", pb.to_json()).with("history", J::Arr(h.clone())).with("trace", o.trace_json());
        if let Some(tool) = sanitizer_report(&o2) {
            rep.violation(&format!("sanitizer-report:{}", tool), &String::from_utf8_lossy(&o2.stderr).chars().take(1500).collect::<String>(), mk(&o2));
            n += step;
            continue;
        }
        if o2.timed_out {
            rep.inconclusive.push(format!("case {}: timeout at prefix {}", case, n));
            n += step;
            continue;
        }
        if o2.exit != Some(0) {
            let so = String::from_utf8_lossy(&o2.stdout).into_owned();
            let sig = if so.contains(".n2_db") { "db-load-error" } else { "build-after-crash-failed" };
            rep.violation(sig, &format!("after truncating the log to {} of {} bytes n2 exits {:?}: {}", n, full.len(), o2.exit, so.chars().take(300).collect::<String>()), mk(&o2));
            n += step;
            continue;
        }
        let exp: BTreeSet<String> = pred.expected_runs(&pb).into_iter().flatten().collect();
        let got: BTreeSet<String> = o2.started().into_iter().collect();
        if exp != got {
            rep.violation("runset-after-crash-differs", &format!("log truncated to {} bytes ({} complete records): started {:?}, model predicts {:?}", n, k, got, exp), mk(&o2));
        }
        sync_after(&mut w, &pb, &inv2, &o2);
        let after = std::fs::read(w.db_path()).unwrap_or_default();
        let pa = crate::dbfmt::parse_db(&after);
        if pa.torn || pa.malformed.is_some() || !pa.header_ok {
            rep.violation("log-not-wellformed-after-recovery", &format!("prefix {}: torn={} malformed={:?}", n, pa.torn, pa.malformed), mk(&o2));
        }
        // third run: nothing to do
        write_plan(env, &w, &inv2, &mut rng);
        let o3 = run_real(env, &w, &inv2);
        rep.evaluations += 1;
        if o3.exit != Some(0) || !o3.started().is_empty() || o3.last_line() != "n2: no work to do" {
            rep.violation("third-build-not-noop", &format!("prefix {}: exit {:?}, started {:?}, last line {:?}", n, o3.exit, o3.started(), o3.last_line()), mk(&o3));
        }
        if n % 7 == 0 {
            let hh = h.clone();
            rep.sample(|| J::obj().with("case", J::i(case)).with("history", J::Arr(hh)));
        }
        n += step;
    }
    hist.clear();
    let _ = std::fs::remove_dir_all(&golden);
}

/// C12, process level: exit status 1 and an `n2: error: ` diagnostic.
pub fn c12_process_case(ctx: &Ctx, env: &RealEnv, dir: &Path, case: u64, seed: u64, rep: &mut Report) {
    let _ = ctx;
    let mut rng = Rng::new(seed);
    clear_dir(dir);
    let w = crate::sim::World::new(dir.to_path_buf(), Project { manifest: "build.ninja".into(), ..Default::default() });
    let good = "rule r\n  command = true\nbuild out: r in\n";
    std::fs::write(dir.join("in"), "x").unwrap();
    let kind = rng.below(8);
    let mut inv = RInv { j: Some(2), timeout_s: 30, ..Default::default() };
    let mut manifest: Vec<u8> = good.as_bytes().to_vec();
    let mut expect_error = true;
    let what;
    match kind {
        0 => {
            // short token sequence as the manifest
            let idx = rng.next() % crate::pure::count_strings(crate::pure::total::TOKENS.len() as u64, 4);
            manifest = crate::pure::total::nth_tokens(idx, 4).unwrap_or_default();
            if rng.chance(1, 2) {
                manifest.push(b'\n');
            }
            expect_error = false; // may be valid
            what = "token-sequence";
        }
        1 => {
            manifest = b"x = abc".to_vec();
            expect_error = true;
            what = "no-final-newline";
        }
        2 => {
            manifest = format!("build {} out2 t\n", "é".repeat(30)).into_bytes();
            what = "multibyte-error-line";
        }
        3 => {
            manifest = format!("rule r\n  command = true\nbuild {}x: r\n", "a/".repeat(rng.range(61, 200))).into_bytes();
            expect_error = false;
            what = "deep-path";
        }
        4 => {
            manifest = b"rule r\n  command = true\nbuild $undefined: r\n".to_vec();
            expect_error = false;
            what = "empty-path";
        }
        5 => {
            manifest = b"include build.ninja\n".to_vec();
            what = "include-cycle";
        }
        6 => {
            // targets
            let t = match rng.below(4) {
                0 => String::new(),
                1 => ".".to_string(),
                2 => "a/".repeat(rng.range(61, 200)),
                _ => "no/such/target".to_string(),
            };
            inv.targets.push(t);
            what = "target-string";
        }
        _ => {
            let n = rng.range(1, 80);
            let pool: &[u8] = b"abr$ {}:|=#\n\n  \t\0\r\xc3\xa9build rule ";
            manifest = (0..n).map(|_| *rng.pick(pool)).collect();
            expect_error = false;
            what = "raw-bytes";
        }
    }
    std::fs::write(dir.join("build.ninja"), &manifest).unwrap();
    let out = run_real(env, &w, &inv);
    rep.evaluations += 1;
    rep.count(&format!("process_{}", what), 1);
    let so = String::from_utf8_lossy(&out.stdout).into_owned();
    let mk = || J::obj().with("case", J::i(case)).with("kind", J::s(what)).with("manifest", J::bytes(&manifest)).with("targets", J::strs(inv.targets.iter().cloned())).with("trace", out.trace_json()).with("stderr", J::bytes(&out.stderr[..out.stderr.len().min(600)]));
    if let Some(tool) = sanitizer_report(&out) {
        rep.violation(&format!("sanitizer-report:{}", tool), &String::from_utf8_lossy(&out.stderr).chars().take(1500).collect::<String>(), mk());
        return;
    }
    if out.timed_out {
        rep.violation("does-not-terminate", "n2 still running after 30 s on a tiny input", mk());
        return;
    }
    match out.exit {
        Some(0) => {
            if expect_error {
                rep.violation("bad-input-accepted", &format!("{}: exit 0", what), mk());
            }
        }
        Some(1) => {
            // a failing `true`-style command is impossible here; must be a diagnostic
            if !so.contains("n2: error: ") && !so.contains("failed: ") {
                rep.violation("diagnostic-prefix-missing", &format!("exit 1 without `n2: error: `: {:?}", so.chars().take(300).collect::<String>()), mk());
            }
            if so.contains("parse error") {
                let ok = so.lines().any(|l| l.trim_start().starts_with('^'));
                if !ok {
                    rep.violation("caret-missing", &format!("{:?}", so), mk());
                }
            }
        }
        other => {
            let se = String::from_utf8_lossy(&out.stderr);
            let sig = if se.contains("panicked") { format!("process-panic:{}", what) } else { format!("process-abort:{}", what) };
            rep.violation(&sig, &format!("exit {:?} signal {:?}; stderr: {}", other, out.signal, se.chars().take(400).collect::<String>()), mk());
        }
    }
    rep.nontrivial.insert(fnv(&manifest) ^ fnv(inv.targets.concat().as_bytes()));
    rep.sample(mk);
}

/// C18: -C, -f and builddir select directory, manifest and log location and nothing else.
pub fn c18_args_case(ctx: &Ctx, env: &RealEnv, dir: &Path, case: u64, seed: u64, rep: &mut Report) {
    let _ = ctx;
    let mut rng = Rng::new(seed);
    let mut opts = GenOpts::default();
    opts.min_steps = 3;
    opts.max_steps = 8;
    opts.defaults = rng.chance(1, 2);
    let base = gen_project(&mut rng, &opts);
    let variant = rng.below(3);
    // configuration A: plain; configuration B: with the option
    let twin = dir.with_file_name("twin");
    let mut runs: Vec<(BTreeSet<String>, Option<i32>, String, Vec<String>)> = Vec::new();
    let targets: Vec<String> = {
        let outs: Vec<String> = base.steps.iter().flat_map(|s| s.outs.iter().cloned()).collect();
        if rng.chance(1, 2) && !outs.is_empty() {
            (0..rng.range(1, 2)).map(|_| rng.pick(&outs).clone()).collect()
        } else {
            vec![]
        }
    };
    let seed2 = rng.next();
    for cfg in 0..2 {
        let root = if cfg == 0 { dir.to_path_buf() } else { twin.clone() };
        let _ = std::fs::create_dir_all(&root);
        clear_dir(&root);
        let mut r2 = Rng::new(seed2);
        let mut p = base.clone();
        let mut inv = RInv { j: Some(4), targets: targets.clone(), ..Default::default() };
        let mut projdir = root.clone();
        match (variant, cfg) {
            (0, 1) => {
                // -C sub  vs  cd sub
                projdir = root.join("sub dir");
                inv.pre_args = vec!["-C".into(), "sub dir".into()];
            }
            (0, 0) => {
                projdir = root.join("sub dir");
                inv.run_in = Some("sub dir".into());
            }
            (1, 1) => {
                p.manifest = "alt.ninja".into();
                inv.pre_args = vec!["-f".into(), "alt.ninja".into()];
            }
            (2, 1) => {
                p.builddir = Some(if r2.chance(1, 2) { "bd".into() } else { "out/bd".into() });
            }
            _ => {}
        }
        std::fs::create_dir_all(&projdir).unwrap();
        let mut w = new_world(env, &projdir, p, &mut r2);
        // new_world clears projdir only; the harness dir layout is root/... ; plan lives in projdir
        scan(&mut w);
        write_plan(env, &w, &inv, &mut r2);
        // run from root (for -C) or from projdir
        let mut wr = crate::sim::World::new(root.clone(), w.proj.clone());
        wr.dir = if inv.pre_args.first().map(|s| s == "-C").unwrap_or(false) { root.clone() } else { projdir.clone() };
        let mut inv_run = inv.clone();
        inv_run.run_in = None;
        // events are read relative to the world dir: point it at the project dir for parsing
        let out = {
            let o = run_real(env, &wr, &inv_run);
            // re-parse events from the project dir (where the agents logged)
            let mut o2 = o;
            let wp = crate::sim::World::new(projdir.clone(), w.proj.clone());
            o2.events = reparse(&wp);
            o2
        };
        rep.evaluations += 1;
        let checks: Vec<String> = out.events.iter().filter(|e| e.kind == 'S' && e.info != "ok").map(|e| format!("{}:{}", e.step, e.info)).collect();
        // where is the log?
        let mut dbs = Vec::new();
        find_files(&root, ".n2_db", &mut dbs);
        let dbs: Vec<String> = dbs.iter().map(|p| p.strip_prefix(&projdir).map(|q| q.to_string_lossy().into_owned()).unwrap_or_else(|_| p.to_string_lossy().into_owned())).collect();
        let want_db = match &w.proj.builddir {
            Some(b) => format!("{}/.n2_db", b),
            None => ".n2_db".to_string(),
        };
        if dbs != vec![want_db.clone()] {
            rep.violation("log-location", &format!("log found at {:?}, expected exactly {:?} (relative to the working directory)", dbs, want_db), J::obj().with("case", J::i(case)).with("variant", J::i(variant)).with("pre_args", J::strs(inv.pre_args.iter().cloned())));
        }
        runs.push((out.started().into_iter().collect(), out.exit, out.last_line(), checks));
    }
    rep.count(&format!("args_variant_{}", ["C", "f", "builddir"][variant]), 1);
    let (a, b) = (&runs[0], &runs[1]);
    let mk = || J::obj().with("case", J::i(case)).with("variant", J::s(["-C vs cd", "-f vs build.ninja", "builddir vs none"][variant])).with("project", base.to_json()).with("targets", J::strs(targets.iter().cloned())).with("plain", J::s(format!("{:?}", a))).with("with_option", J::s(format!("{:?}", b)));
    if a.0 != b.0 || a.1 != b.1 || a.2 != b.2 {
        rep.violation("option-changes-behaviour", &format!("started/exit/summary differ: {:?} vs {:?}", a, b), mk());
    }
    if !b.3.is_empty() || !a.3.is_empty() {
        rep.violation("agent-check", &format!("commands observed a wrong environment: {:?} / {:?}", a.3, b.3), mk());
    }
    if !a.0.is_empty() {
        rep.nontrivial.insert(fnv_combine(base.shape_hash(), variant as u64));
        rep.sample(mk);
    }
    let _ = std::fs::remove_dir_all(&twin);
    let _ = DirtyWhy::Clean;
}

fn reparse(w: &crate::sim::World) -> Vec<AgentEv> {
    let text = std::fs::read_to_string(w.dir.join(".n2v/events")).unwrap_or_default();
    let mut v = Vec::new();
    for l in text.lines() {
        let p: Vec<&str> = l.splitn(6, ' ').collect();
        if p.len() < 4 {
            continue;
        }
        v.push(AgentEv { ver: p.get(5).unwrap_or(&"").to_string(), kind: p[0].chars().next().unwrap_or('?'), step: p[1].to_string(), pid: p[2].parse().unwrap_or(0), ns: p[3].parse().unwrap_or(0), info: p.get(4).unwrap_or(&"").to_string() });
    }
    v.sort_by_key(|e| e.ns);
    v
}

fn find_files(dir: &Path, name: &str, out: &mut Vec<std::path::PathBuf>) {
    if let Ok(rd) = std::fs::read_dir(dir) {
        for e in rd.flatten() {
            let p = e.path();
            if p.is_dir() {
                find_files(&p, name, out);
            } else if e.file_name().to_string_lossy() == name {
                out.push(p);
            }
        }
    }
}
