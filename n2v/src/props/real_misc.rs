//! Black-box workloads for C07 (every byte prefix of a real log), C12
//! (process-level diagnostics) and C18 (-C / -f / builddir).
use super::realp::*;
use crate::ap::*;
use crate::json::J;
use crate::model::*;
use crate::real::*;
use crate::report::Report;
use crate::rng::{fnv, fnv_combine, Rng};
use crate::sim::clear_dir;
use crate::Ctx;
use std::collections::BTreeSet;
use std::path::Path;

fn copy_tree(src: &Path, dst: &Path) {
    let _ = std::fs::create_dir_all(dst);
    if let Ok(rd) = std::fs::read_dir(src) {
        for e in rd.flatten() {
            let p = e.path();
            let d = dst.join(e.file_name());
            if p.is_dir() {
                copy_tree(&p, &d);
            } else {
                let _ = std::fs::copy(&p, &d);
                if let (Ok(m), Ok(f)) = (std::fs::metadata(&p), std::fs::File::options().write(true).open(&d)) {
                    if let Ok(t) = m.modified() {
                        let _ = f.set_modified(t);
                    }
                }
            }
        }
    }
}

/// C07, hook-free: build for real, then for every byte prefix of the log n2
/// wrote, run n2 twice on a copy of the tree.
pub fn c07_prefix_case(ctx: &Ctx, env: &RealEnv, dir: &Path, case: u64, seed: u64, rep: &mut Report) {
    let mut rng = Rng::new(seed);
    let mut opts = GenOpts::default();
    opts.min_steps = 2;
    opts.max_steps = 6;
    opts.discovers = true;
    opts.pools = false;
    let proj = gen_project(&mut rng, &opts);
    let mut w = new_world(env, dir, proj, &mut rng);
    let inv = RInv { j: Some(4), ..Default::default() };
    scan(&mut w);
    write_plan(env, &w, &inv, &mut rng);
    let pb = w.proj.clone();
    let out = run_real(env, &w, &inv);
    rep.evaluations += 1;
    if out.exit != Some(0) || out.timed_out {
        return;
    }
    sync_after(&mut w, &pb, &inv, &out);
    let full = std::fs::read(w.db_path()).unwrap_or_default();
    let parsed_full = crate::dbfmt::parse_db(&full);
    let nbuild_full = crate::dbfmt::named_builds(&parsed_full).len();
    if nbuild_full != w.st.records.len() {
        rep.inconclusive.push(format!("case {}: log has {} build records, model {}", case, nbuild_full, w.st.records.len()));
        return;
    }
    let golden = dir.with_file_name("golden");
    let _ = std::fs::remove_dir_all(&golden);
    copy_tree(dir, &golden);
    let all_records = w.st.records.clone();
    let step = if ctx.thorough() { 1 } else { 3 };
    let mut n = rng.below(step);
    let mut hist = vec![J::obj().with("full-build", J::strs(out.started())).with("log_bytes", J::i(full.len()))];
    while n < full.len() {
        if ctx.expired() {
            break;
        }
        clear_dir(dir);
        copy_tree(&golden, dir);
        std::fs::write(w.db_path(), &full[..n]).unwrap();
        let parsed = crate::dbfmt::parse_db(&full[..n]);
        let named = crate::dbfmt::named_builds(&parsed);
        let k = named.len();
        // the model's records that survive are those whose build record is complete in the prefix
        // (matched by output names: n2 writes records in the order it processes completions, which
        // need not be the order in which the commands logged their end)
        w.st.records = named.iter().filter_map(|nb| all_records.iter().rev().find(|r| r.outs == nb.outs).cloned()).collect();
        scan(&mut w);
        let inv2 = RInv { j: Some(4), ..Default::default() };
        let pred = super::predict_inv(&w, &inv2.as_sim_inv());
        write_plan(env, &w, &inv2, &mut rng);
        let o2 = run_real(env, &w, &inv2);
        rep.evaluations += 1;
        rep.count("prefixes", 1);
        let mid = parsed.torn;
        if mid {
            rep.count("prefixes_mid_record", 1);
            rep.nontrivial.insert(fnv_combine(fnv_combine(pb.shape_hash(), n as u64), full.len() as u64));
        }
        let mut h = hist.clone();
        h.push(J::obj().with("log-truncated-to", J::i(n)).with("complete_build_records", J::i(k)).with("started", J::strs(o2.started())).with("exit", o2.exit.map(J::i).unwrap_or(J::Null)));
        let mk = |o: &ROut| J::obj().with("case", J::i(case)).with("project", pb.to_json()).with("history", J::Arr(h.clone())).with("trace", o.trace_json());
        if let Some(tool) = sanitizer_report(&o2) {
            rep.violation(&format!("sanitizer-report:{}", tool), &String::from_utf8_lossy(&o2.stderr).chars().take(1500).collect::<String>(), mk(&o2));
            n += step;
            continue;
        }
        if o2.timed_out {
            rep.inconclusive.push(format!("case {}: timeout at prefix {}", case, n));
            n += step;
            continue;
        }
        if o2.exit != Some(0) {
            let so = String::from_utf8_lossy(&o2.stdout).into_owned();
            let sig = if so.contains(".n2_db") { "db-load-error" } else { "build-after-crash-failed" };
            rep.violation(sig, &format!("after truncating the log to {} of {} bytes n2 exits {:?}: {}", n, full.len(), o2.exit, so.chars().take(300).collect::<String>()), mk(&o2));
            n += step;
            continue;
        }
        let exp: BTreeSet<String> = pred.expected_runs(&pb).into_iter().flatten().collect();
        let got: BTreeSet<String> = o2.started().into_iter().collect();
        if exp != got {
            rep.violation("runset-after-crash-differs", &format!("log truncated to {} bytes ({} complete records): started {:?}, model predicts {:?}", n, k, got, exp), mk(&o2));
        }
        sync_after(&mut w, &pb, &inv2, &o2);
        let after = std::fs::read(w.db_path()).unwrap_or_default();
        let pa = crate::dbfmt::parse_db(&after);
        if pa.torn || pa.malformed.is_some() || !pa.header_ok {
            rep.violation("log-not-wellformed-after-recovery", &format!("prefix {}: torn={} malformed={:?}", n, pa.torn, pa.malformed), mk(&o2));
        }
        // third run: nothing to do
        write_plan(env, &w, &inv2, &mut rng);
        let o3 = run_real(env, &w, &inv2);
        rep.evaluations += 1;
        if o3.exit != Some(0) || !o3.started().is_empty() || o3.last_line() != "n2: no work to do" {
            rep.violation("third-build-not-noop", &format!("prefix {}: exit {:?}, started {:?}, last line {:?}", n, o3.exit, o3.started(), o3.last_line()), mk(&o3));
        }
        if n % 7 == 0 {
            let hh = h.clone();
            rep.sample(|| J::obj().with("case", J::i(case)).with("history", J::Arr(hh)));
        }
        n += step;
    }
    hist.clear();
    let _ = std::fs::remove_dir_all(&golden);
}

/// C12, process level: exit status 1 and an `n2: error: ` diagnostic.
pub fn c12_process_case(ctx: &Ctx, env: &RealEnv, dir: &Path, case: u64, seed: u64, rep: &mut Report) {
    let mut rng = Rng::new(seed);
    clear_dir(dir);
    let w = crate::sim::World::new(dir.to_path_buf(), Project { manifest: "build.ninja".into(), ..Default::default() });
    let good = "rule r\n  command = true\nbuild out: r in\n";
    std::fs::write(dir.join("in"), "x").unwrap();
    // (C06 borrows the depfile kind: a step whose command succeeded must end in a decision, not in a hang or abort)
    let kind = if ctx.prop == "C06" { 8 } else { rng.below(11) };
    let mut inv = RInv { j: Some(2), timeout_s: 30, ..Default::default() };
    // for the depfile kinds: bytes the command copies into place as its depfile
    let mut depfile: Option<Vec<u8>> = None;
    let mut manifest: Vec<u8> = good.as_bytes().to_vec();
    let mut expect_error = true;
    let what;
    match kind {
        0 => {
            // short token sequence as the manifest
            let idx = rng.next() % crate::pure::count_strings(crate::pure::total::TOKENS.len() as u64, 4);
            manifest = crate::pure::total::nth_tokens(idx, 4).unwrap_or_default();
            if rng.chance(1, 2) {
                manifest.push(b'\n');
            }
            expect_error = false; // may be valid
            what = "token-sequence";
        }
        1 => {
            manifest = b"x = abc".to_vec();
            expect_error = true;
            what = "no-final-newline";
        }
        2 => {
            manifest = format!("build {} out2 t\n", "é".repeat(30)).into_bytes();
            what = "multibyte-error-line";
        }
        3 => {
            manifest = format!("rule r\n  command = true\nbuild {}x: r\n", "a/".repeat(rng.range(61, 200))).into_bytes();
            expect_error = false;
            what = "deep-path";
        }
        4 => {
            manifest = b"rule r\n  command = true\nbuild $undefined: r\n".to_vec();
            expect_error = false;
            what = "empty-path";
        }
        5 => {
            manifest = b"include build.ninja\n".to_vec();
            what = "include-cycle";
        }
        6 => {
            // targets
            let t = match rng.below(4) {
                0 => String::new(),
                1 => ".".to_string(),
                2 => "a/".repeat(rng.range(61, 200)),
                _ => "no/such/target".to_string(),
            };
            inv.targets.push(t);
            what = "target-string";
        }
        7 => {
            let n = rng.range(1, 80);
            let pool: &[u8] = b"abr$ {}:|=#\n\n  \t\0\r\xc3\xa9build rule ";
            manifest = (0..n).map(|_| *rng.pick(pool)).collect();
            expect_error = false;
            what = "raw-bytes";
        }
        _ => {
            // a successful command leaves a depfile behind: well-formed ones naming files that exist, do
            // not exist, lie in missing directories or are directories; malformed and random ones
            manifest = b"rule cc\n  command = cp dep.src out.d && touch out\n  depfile = out.d\nbuild out: cc in\n".to_vec();
            std::fs::write(dir.join("hdr.h"), "h").unwrap();
            std::fs::create_dir_all(dir.join("adir")).unwrap();
            let names = ["hdr.h", "gone.h", "no/such/dir/x.h", "adir", "../outside.h", "in", "out", ".", "hdr.h/x", "é.h", "a b.h"];
            let mut d: Vec<u8> = Vec::new();
            match rng.below(4) {
                0 | 1 => {
                    d.extend_from_slice(b"out:");
                    for _ in 0..rng.range(0, 4) {
                        d.push(b' ');
                        d.extend_from_slice(rng.pick(&names[..]).replace(' ', "\\ ").as_bytes());
                        if rng.chance(1, 5) {
                            d.extend_from_slice(b" \\\n ");
                        }
                    }
                    match rng.below(8) {
                        // a writer that ends every entry with ` \` and stops there; a truncated file
                        0 | 3 => d.extend_from_slice(b" \\"),
                        1 => d.push(b'\\'),
                        2 => {}
                        _ => d.push(b'\n'),
                    }
                }
                2 => {
                    // several targets, odd spacing
                    for t in 0..rng.range(1, 3) {
                        d.extend_from_slice(format!("t{} :  {}  {}\n\n", t, rng.pick(&names[..]), rng.pick(&names[..])).as_bytes());
                    }
                }
                _ => {
                    let n = rng.range(0, 60);
                    let pool: &[u8] = b"ab: \\\n\n  \t\r$%#*|/..\xc3\xa9out hdr.h gone";
                    d = (0..n).map(|_| *rng.pick(pool)).collect();
                }
            }
            depfile = Some(d);
            expect_error = false;
            what = "depfile";
        }
    }
    std::fs::write(dir.join("build.ninja"), &manifest).unwrap();
    if let Some(d) = &depfile {
        std::fs::write(dir.join("dep.src"), d).unwrap();
    }
    let mut out = run_real(env, &w, &inv);
    if depfile.is_some() && out.exit == Some(0) && !out.timed_out {
        // what was recorded is loaded (and the step judged) by the next invocation
        rep.evaluations += 1;
        out = run_real(env, &w, &inv);
    }
    rep.evaluations += 1;
    rep.count(&format!("process_{}", what), 1);
    let so = String::from_utf8_lossy(&out.stdout).into_owned();
    let mk = || J::obj().with("case", J::i(case)).with("kind", J::s(what)).with("manifest", J::bytes(&manifest)).with("depfile", depfile.as_ref().map(|d| J::bytes(d)).unwrap_or(J::Null)).with("targets", J::strs(inv.targets.iter().cloned())).with("trace", out.trace_json()).with("stderr", J::bytes(&out.stderr[..out.stderr.len().min(600)]));
    if let Some(tool) = sanitizer_report(&out) {
        rep.violation(&format!("sanitizer-report:{}", tool), &String::from_utf8_lossy(&out.stderr).chars().take(1500).collect::<String>(), mk());
        return;
    }
    if out.timed_out {
        // a tiny input normally takes milliseconds; before calling it a hang, try once more with a longer watchdog
        let inv2 = RInv { timeout_s: 90, ..inv.clone() };
        let again = run_real(env, &w, &inv2);
        if again.timed_out {
            rep.violation("does-not-terminate", "n2 still running after 30 s and, on a second attempt, after 90 s on a tiny input", mk());
        } else {
            rep.inconclusive.push(format!("case {}: watchdog fired once (30 s) but the input terminates on a second attempt", case));
        }
        return;
    }
    match out.exit {
        Some(0) => {
            if expect_error {
                rep.violation("bad-input-accepted", &format!("{}: exit 0", what), mk());
            }
        }
        Some(1) => {
            // a failing `true`-style command is impossible here; must be a diagnostic
            if !so.contains("n2: error: ") && !so.contains("failed: ") {
                rep.violation("diagnostic-prefix-missing", &format!("exit 1 without `n2: error: `: {:?}", so.chars().take(300).collect::<String>()), mk());
            }
            if so.contains("parse error") {
                let ok = so.lines().any(|l| l.trim_start().starts_with('^'));
                if !ok {
                    rep.violation("caret-missing", &format!("{:?}", so), mk());
                }
            }
        }
        other => {
            let se = String::from_utf8_lossy(&out.stderr);
            let sig = if se.contains("panicked") { format!("process-panic:{}", what) } else { format!("process-abort:{}", what) };
            rep.violation(&sig, &format!("exit {:?} signal {:?}; stderr: {}", other, out.signal, se.chars().take(400).collect::<String>()), mk());
        }
    }
    rep.nontrivial.insert(fnv(&manifest) ^ fnv(inv.targets.concat().as_bytes()));
    rep.sample(mk);
}

/// C18: -C, -f and builddir select directory, manifest and log location and nothing else.
pub fn c18_args_case(ctx: &Ctx, env: &RealEnv, dir: &Path, case: u64, seed: u64, rep: &mut Report) {
    let _ = ctx;
    let mut rng = Rng::new(seed);
    let mut opts = GenOpts::default();
    opts.min_steps = 3;
    opts.max_steps = 8;
    opts.defaults = rng.chance(1, 2);
    let base = gen_project(&mut rng, &opts);
    let variant = rng.below(5);
    // configuration A: plain; configuration B: with the option
    let twin = dir.with_file_name("twin");
    let mut runs: Vec<(BTreeSet<String>, Option<i32>, String, Vec<String>)> = Vec::new();
    let targets: Vec<String> = {
        let outs: Vec<String> = base.steps.iter().flat_map(|s| s.outs.iter().cloned()).collect();
        if rng.chance(1, 2) && !outs.is_empty() {
            (0..rng.range(1, 2)).map(|_| rng.pick(&outs).clone()).collect()
        } else {
            vec![]
        }
    };
    let seed2 = rng.next();
    for cfg in 0..2 {
        let root = if cfg == 0 { dir.to_path_buf() } else { twin.clone() };
        let _ = std::fs::create_dir_all(&root);
        clear_dir(&root);
        let mut r2 = Rng::new(seed2);
        let mut p = base.clone();
        let mut inv = RInv { j: Some(4), targets: targets.clone(), ..Default::default() };
        let mut projdir = root.clone();
        match (variant, cfg) {
            (0, 1) => {
                // -C sub  vs  cd sub
                projdir = root.join("sub dir");
                inv.pre_args = vec!["-C".into(), "sub dir".into()];
            }
            (0, 0) => {
                projdir = root.join("sub dir");
                inv.run_in = Some("sub dir".into());
            }
            (1, 1) => {
                p.manifest = "alt.ninja".into();
                inv.pre_args = vec!["-f".into(), "alt.ninja".into()];
            }
            (2, 1) => {
                p.builddir = Some(if r2.chance(1, 2) { "bd".into() } else { "out/bd".into() });
            }
            _ => {}
        }
        std::fs::create_dir_all(&projdir).unwrap();
        let mut w = new_world(env, &projdir, p, &mut r2);
        let mut want_db = match &w.proj.builddir {
            Some(b) => format!("{}/.n2_db", b),
            None => ".n2_db".to_string(),
        };
        if cfg == 1 && variant >= 3 {
            // `builddir` bound in another file: a subninja file's binding is private to that file (the log
            // stays where it was), an included file's binding is the including scope's
            let kw = if variant == 3 { "subninja" } else { "include" };
            let mut text = std::fs::read_to_string(projdir.join(&w.proj.manifest)).unwrap();
            let at_top = r2.chance(1, 2);
            if at_top {
                text = format!("{} vendored.ninja\n{}", kw, text);
            } else {
                text.push_str(&format!("{} vendored.ninja\n", kw));
            }
            std::fs::write(projdir.join(&w.proj.manifest), text).unwrap();
            std::fs::write(projdir.join("vendored.ninja"), "builddir = vend\nrule vendored_cc\n  command = true\n").unwrap();
            if variant == 4 {
                want_db = "vend/.n2_db".to_string();
            }
        }
        // new_world clears projdir only; the harness dir layout is root/... ; plan lives in projdir
        scan(&mut w);
        write_plan(env, &w, &inv, &mut r2);
        // run from root (for -C) or from projdir
        let mut wr = crate::sim::World::new(root.clone(), w.proj.clone());
        wr.dir = if inv.pre_args.first().map(|s| s == "-C").unwrap_or(false) { root.clone() } else { projdir.clone() };
        let mut inv_run = inv.clone();
        inv_run.run_in = None;
        // events are read relative to the world dir: point it at the project dir for parsing
        let out = {
            let o = run_real(env, &wr, &inv_run);
            // re-parse events from the project dir (where the agents logged)
            let mut o2 = o;
            let wp = crate::sim::World::new(projdir.clone(), w.proj.clone());
            o2.events = reparse(&wp);
            o2
        };
        rep.evaluations += 1;
        let checks: Vec<String> = out.events.iter().filter(|e| e.kind == 'S' && e.info != "ok").map(|e| format!("{}:{}", e.step, e.info)).collect();
        // where is the log?
        let mut dbs = Vec::new();
        find_files(&root, ".n2_db", &mut dbs);
        let dbs: Vec<String> = dbs.iter().map(|p| p.strip_prefix(&projdir).map(|q| q.to_string_lossy().into_owned()).unwrap_or_else(|_| p.to_string_lossy().into_owned())).collect();
        if dbs != vec![want_db.clone()] {
            rep.violation("log-location", &format!("log found at {:?}, expected exactly {:?} (relative to the working directory)", dbs, want_db), J::obj().with("case", J::i(case)).with("variant", J::i(variant)).with("pre_args", J::strs(inv.pre_args.iter().cloned())));
        }
        runs.push((out.started().into_iter().collect(), out.exit, out.last_line(), checks));
    }
    rep.count(&format!("args_variant_{}", ["C", "f", "builddir", "subninja_builddir", "include_builddir"][variant]), 1);
    let (a, b) = (&runs[0], &runs[1]);
    let mk = || J::obj().with("case", J::i(case)).with("variant", J::s(["-C vs cd", "-f vs build.ninja", "builddir vs none", "builddir bound in a subninja file vs none", "builddir bound in an included file vs none"][variant])).with("project", base.to_json()).with("targets", J::strs(targets.iter().cloned())).with("plain", J::s(format!("{:?}", a))).with("with_option", J::s(format!("{:?}", b)));
    if a.0 != b.0 || a.1 != b.1 || a.2 != b.2 {
        rep.violation("option-changes-behaviour", &format!("started/exit/summary differ: {:?} vs {:?}", a, b), mk());
    }
    if !b.3.is_empty() || !a.3.is_empty() {
        rep.violation("agent-check", &format!("commands observed a wrong environment: {:?} / {:?}", a.3, b.3), mk());
    }
    if !a.0.is_empty() {
        rep.nontrivial.insert(fnv_combine(base.shape_hash(), variant as u64));
        rep.sample(mk);
    }
    let _ = std::fs::remove_dir_all(&twin);
    let _ = DirtyWhy::Clean;
}

fn reparse(w: &crate::sim::World) -> Vec<AgentEv> {
    let text = std::fs::read_to_string(w.dir.join(".n2v/events")).unwrap_or_default();
    let mut v = Vec::new();
    for l in text.lines() {
        let p: Vec<&str> = l.splitn(6, ' ').collect();
        if p.len() < 4 {
            continue;
        }
        v.push(AgentEv { ver: p.get(5).unwrap_or(&"").to_string(), kind: p[0].chars().next().unwrap_or('?'), step: p[1].to_string(), pid: p[2].parse().unwrap_or(0), ns: p[3].parse().unwrap_or(0), info: p.get(4).unwrap_or(&"").to_string() });
    }
    v.sort_by_key(|e| e.ns);
    v
}

fn find_files(dir: &Path, name: &str, out: &mut Vec<std::path::PathBuf>) {
    if let Ok(rd) = std::fs::read_dir(dir) {
        for e in rd.flatten() {
            let p = e.path();
            if p.is_dir() {
                find_files(&p, name, out);
            } else if e.file_name().to_string_lossy() == name {
                out.push(p);
            }
        }
    }
}

// ------------------------------------------------------------------------
// C20 / C19 under a pseudo-terminal

/// Run n2 with stdin/stdout/stderr on a pty of the given size; returns (exit, signal, bytes shown).
fn run_on_pty(env: &RealEnv, dir: &Path, args: &[String], cols: u16, rows: u16, resize_to: Option<u16>, timeout_s: u64) -> (Option<i32>, Option<i32>, Vec<u8>, bool, Option<usize>) {
    use std::os::fd::FromRawFd;
    use std::os::unix::process::ExitStatusExt;
    let mut master: libc::c_int = 0;
    let mut slave: libc::c_int = 0;
    let ws = libc::winsize { ws_row: rows, ws_col: cols, ws_xpixel: 0, ws_ypixel: 0 };
    let rc = unsafe { libc::openpty(&mut master, &mut slave, std::ptr::null_mut(), std::ptr::null(), &ws) };
    if rc != 0 {
        return (None, None, b"openpty failed".to_vec(), true, None);
    }
    unsafe {
        libc::fcntl(master, libc::F_SETFD, libc::FD_CLOEXEC);
    }
    let mk = |fd: i32| unsafe { std::process::Stdio::from_raw_fd(libc::dup(fd)) };
    let mut cmd = std::process::Command::new(&env.n2);
    cmd.args(args).current_dir(dir).stdin(mk(slave)).stdout(mk(slave)).stderr(mk(slave)).env("RUST_BACKTRACE", "0");
    cmd.env("ASAN_OPTIONS", "detect_leaks=0:exitcode=98:abort_on_error=0").env("TSAN_OPTIONS", "exitcode=66:halt_on_error=1");
    unsafe {
        use std::os::unix::process::CommandExt;
        let unlimited = wants_address_space(env);
        cmd.pre_exec(move || {
            child_address_space(unlimited);
            libc::setsid();
            libc::signal(libc::SIGINT, libc::SIG_DFL);
            libc::signal(libc::SIGQUIT, libc::SIG_DFL);
            libc::signal(libc::SIGHUP, libc::SIG_DFL);
            libc::signal(libc::SIGPIPE, libc::SIG_DFL);
            Ok(())
        });
    }
    let mut child = match cmd.spawn() {
        Ok(c) => c,
        Err(e) => return (None, None, format!("spawn: {}", e).into_bytes(), true, None),
    };
    unsafe { libc::close(slave) };
    // non-blocking reads from the master
    unsafe {
        let fl = libc::fcntl(master, libc::F_GETFL);
        libc::fcntl(master, libc::F_SETFL, fl | libc::O_NONBLOCK);
    }
    let mut shown = Vec::new();
    let t0 = std::time::Instant::now();
    let mut resized = false;
    let mut resized_at: Option<usize> = None;
    let mut timed_out = false;
    let mut status = None;
    let mut buf = [0u8; 65536];
    loop {
        let n = unsafe { libc::read(master, buf.as_mut_ptr() as *mut libc::c_void, buf.len()) };
        if n > 0 {
            shown.extend_from_slice(&buf[..n as usize]);
            continue;
        }
        if status.is_some() {
            break;
        }
        if let Ok(Some(st)) = child.try_wait() {
            status = Some(st);
            continue; // drain once more
        }
        if let (Some(c), false) = (resize_to, resized) {
            if t0.elapsed().as_millis() > 120 {
                let w2 = libc::winsize { ws_row: rows, ws_col: c, ws_xpixel: 0, ws_ypixel: 0 };
                unsafe { libc::ioctl(master, libc::TIOCSWINSZ, &w2) };
                resized = true;
                resized_at = Some(shown.len());
            }
        }
        if t0.elapsed().as_secs() > timeout_s {
            timed_out = true;
            unsafe { libc::kill(child.id() as i32, libc::SIGKILL) };
            status = child.wait().ok();
            break;
        }
        std::thread::sleep(std::time::Duration::from_millis(2));
    }
    unsafe { libc::close(master) };
    (status.and_then(|s| s.code()), status.and_then(|s| s.signal()), shown, timed_out, resized_at)
}

/// Remove ANSI escape sequences and carriage returns, keeping the bytes as sent.
fn strip_ansi_bytes(b: &[u8]) -> Vec<u8> {
    let mut out = Vec::new();
    let mut i = 0;
    while i < b.len() {
        if b[i] == 0x1b && i + 1 < b.len() && b[i + 1] == b'[' {
            i += 2;
            while i < b.len() && !(0x40..=0x7e).contains(&b[i]) {
                i += 1;
            }
            i += 1;
        } else if b[i] == b'\r' {
            i += 1;
        } else {
            out.push(b[i]);
            i += 1;
        }
    }
    out
}

/// Remove ANSI escape sequences and carriage returns.
fn strip_ansi(b: &[u8]) -> String {
    let mut out = Vec::new();
    let mut i = 0;
    while i < b.len() {
        if b[i] == 0x1b && i + 1 < b.len() && b[i + 1] == b'[' {
            i += 2;
            while i < b.len() && !(0x40..=0x7e).contains(&b[i]) {
                i += 1;
            }
            i += 1;
        } else if b[i] == b'\r' {
            i += 1;
        } else {
            out.push(b[i]);
            i += 1;
        }
    }
    String::from_utf8_lossy(&out).into_owned()
}

fn weird_text(rng: &mut Rng, n: usize) -> String {
    let pool = ["a", "b", " ", "é", "ビ", "ル", "ド", "中", "😀", "-", "/", "ß", "\u{301}", "x", "0"];
    (0..n).map(|_| *rng.pick(&pool[..])).collect::<String>().trim().to_string()
}

pub fn c20_pty_case(ctx: &Ctx, env: &RealEnv, dir: &Path, case: u64, seed: u64, rep: &mut Report) {
    let mut rng = Rng::new(seed);
    let ntasks = rng.range(3, if ctx.thorough() { 30 } else { 10 });
    let long_running = ctx.thorough() && rng.chance(1, 4);
    let mut manifest = String::new();
    let mut names = Vec::new();
    for i in 0..ntasks {
        let dlen = *rng.pick(&[3usize, 20, 60, 100, 200, 400]);
        let desc = format!("D{} {}", i, weird_text(&mut rng, dlen));
        let line_len = *rng.pick(&[0usize, 10, 80, 300]);
        let last_line = weird_text(&mut rng, line_len);
        let raw = if rng.chance(1, 4) { "\\377\\303" } else { "" };
        let sleep = if long_running && i == 0 { "3.3".to_string() } else { format!("0.{:02}", rng.below(35)) };
        // the command prints a progress line, waits, then writes its output
        let cmd = format!("printf '%s{}\\n' '{}'; sleep {}; echo done > o{}", raw, last_line.replace('\'', ""), sleep, i);
        manifest.push_str(&format!("rule r{}\n  command = {}\n", i, cmd.replace('$', "$$")));
        if rng.chance(3, 4) {
            manifest.push_str(&format!("  description = {}\n", desc.replace('$', "$$")));
        }
        if rng.chance(1, 6) {
            manifest.push_str("  hide_progress = 1\n");
        }
        if rng.chance(1, 6) {
            manifest.push_str("  hide_success = 1\n");
        }
        manifest.push_str(&format!("build o{}: r{}\n", i, i));
        names.push(format!("o{}", i));
    }
    let fail_one = rng.chance(1, 2);
    if fail_one {
        // a failing command with output, or one that says nothing at all (`test -e`, `cmp -s`, ...)
        let cmd = *rng.pick(&["echo ビルド失敗 😀; exit 3", "exit 3", "test -e no_such_file", "printf 'no newline'; exit 1", "kill -TERM $$$$"]);
        rep.count(if cmd.contains("exit 3") && !cmd.contains("echo") || cmd.contains("test") { "pty_failing_commands_silent" } else { "pty_failing_commands_with_output" }, 1);
        manifest.push_str(&format!("rule bad\n  command = {}\n  description = failing ビ\nbuild obad: bad\n", cmd));
    }
    let cols: u16 = match rng.below(9) {
        // widths n2 does not accept (it renders for 80 columns then); 1 and 2 are below every margin
        0 => rng.range(1, 9) as u16,
        8 => rng.range(1, 2) as u16,
        1 => 10,
        2 => 11,
        3 => 40,
        4 => 80,
        _ => rng.range(10, 300) as u16,
    };
    let j = *rng.pick(&[1usize, 3, 8]);
    let args: Vec<String> = vec!["-j".into(), j.to_string(), "-k".into(), "100".into()];
    // twin without a terminal
    let twin = dir.with_file_name("twin");
    let mut results = Vec::new();
    let mut resized_to: Option<u16> = None;
    let mut resized_at: Option<usize> = None;
    for tty in [false, true] {
        let d = if tty { dir.to_path_buf() } else { twin.clone() };
        let _ = std::fs::create_dir_all(&d);
        clear_dir(&d);
        std::fs::write(d.join("build.ninja"), &manifest).unwrap();
        if tty {
            let resize = if rng.chance(1, 3) { Some(rng.range(10, 200) as u16) } else { None };
            resized_to = resize;
            let (exit, sig, shown, to, at) = run_on_pty(env, &d, &args, cols, 24, resize, 60);
            resized_at = at;
            results.push((exit, sig, strip_ansi(&shown), shown, to));
        } else {
            let w = crate::sim::World::new(d.clone(), Project { manifest: "build.ninja".into(), ..Default::default() });
            let inv = RInv { j: Some(j), k: Some(100), timeout_s: 60, ..Default::default() };
            let o = run_real(env, &w, &inv);
            results.push((o.exit, o.signal, String::from_utf8_lossy(&o.stdout).into_owned(), o.stdout.clone(), o.timed_out));
        }
        rep.evaluations += 1;
    }
    let built = |d: &Path| -> Vec<String> { names.iter().filter(|n| d.join(n).exists()).cloned().collect() };
    let (plain, pty) = (&results[0], &results[1]);
    let mk = || {
        J::obj()
            .with("case", J::i(case))
            .with("cols", J::i(cols))
            .with("j", J::i(j))
            .with("manifest", J::s(&manifest))
            .with("pty_exit", J::s(format!("{:?}/{:?}", pty.0, pty.1)))
            .with("plain_exit", J::s(format!("{:?}/{:?}", plain.0, plain.1)))
            .with("pty_tail", J::s(pty.2.chars().rev().take(600).collect::<String>().chars().rev().collect::<String>()))
    };
    rep.count("pty_builds", 1);
    if cols < 10 {
        rep.count("pty_builds_width_below_10", 1);
    }
    if pty.4 || plain.4 {
        rep.inconclusive.push(format!("case {}: timeout (pty={}, plain={})", case, pty.4, plain.4));
        return;
    }
    if pty.2.contains("AddressSanitizer") || pty.2.contains("ThreadSanitizer") || pty.0 == Some(98) || pty.0 == Some(66) {
        rep.violation("sanitizer-report:pty", &pty.2.chars().take(1500).collect::<String>(), mk());
        return;
    }
    if pty.0 != plain.0 || pty.1 != plain.1 {
        let sig = if pty.2.contains("panicked") { "pty-panic" } else { "pty-exit-differs" };
        rep.violation(sig, &format!("under a {}-column terminal n2 ended {:?}/{:?}, without a terminal {:?}/{:?}", cols, pty.0, pty.1, plain.0, plain.1), mk());
    }
    let (b1, b2) = (built(&twin), built(dir));
    if b1 != b2 {
        rep.violation("pty-outputs-differ", &format!("outputs built without a terminal {:?}, under the terminal {:?}", b1, b2), mk());
    }
    let last = |s: &str| s.lines().filter(|l| l.starts_with("n2: ")).last().unwrap_or("").to_string();
    if last(&pty.2) != last(&plain.2) {
        rep.violation("pty-summary-differs", &format!("summary {:?} vs {:?}", last(&pty.2), last(&plain.2)), mk());
    }
    // progress lines: bar width and counts
    let total = ntasks + fail_one as usize;
    for l in pty.2.lines() {
        if let (Some(a), Some(b)) = (l.find('['), l.find("] ")) {
            if b > a && l[b..].contains(" done, ") {
                rep.count("progress_lines_seen", 1);
                let bar = &l[a + 1..b];
                if bar.len() != 40 {
                    rep.violation("bar-width", &format!("progress bar {:?} is {} wide", bar, bar.len()), mk());
                }
                // "d/t done"
                if let Some(frac) = l[b + 2..].split(" done").next() {
                    if let Some((d, t)) = frac.split_once('/') {
                        if let (Ok(d), Ok(t)) = (d.trim().parse::<usize>(), t.trim().parse::<usize>()) {
                            // (0/0 is what the display holds before the build phase's first update, and
                            // during the always-present phase that checks the manifest file itself)
                            if t != 0 && (t != total || d > t) {
                                rep.violation("progress-counts", &format!("progress line {:?} but {} commands are wanted", l, total), mk());
                            }
                        }
                    }
                }
            }
        }
        // task lines must fit the terminal (width below 10 falls back to 80)
        let w1 = if cols < 10 { 80 } else { cols as usize };
        let width = w1.max(resized_to.unwrap_or(0) as usize);
        if (l.starts_with('D') || l.starts_with("printf")) && l.len() > width.max(12) && l.ends_with("...") {
            rep.violation("task-line-too-wide", &format!("{:?} is {} bytes on a {}-column terminal", l, l.len(), width), mk());
        }
        // a width below 10 is not accepted: nothing may be cut for it (cut lines are cut for 80 columns)
        if cols < 10 && resized_to.is_none() && (l.starts_with('D') || l.starts_with("printf")) && l.len() < 40 && l.ends_with("...") {
            rep.violation("narrow-width-accepted", &format!("on a {}-column terminal the task line was cut to {:?}", cols, l), mk());
        }
    }
    // rows of the status area that show a running command's last output line (two spaces, then the line):
    // at most the terminal width in bytes, measured on what was actually sent to the terminal
    {
        let w1 = if cols < 10 { 80 } else { cols as usize };
        let width = w1.max(resized_to.unwrap_or(0) as usize).max(12);
        let raw = strip_ansi_bytes(&pty.3);
        for row in raw.split(|&b| b == b'\n') {
            if row.starts_with(b"  ") {
                rep.count("last_line_rows_seen", 1);
                if row.len() > width {
                    rep.violation("last-line-row-too-wide", &format!("a last-output-line row is {} bytes on a {}-column terminal: {:?}", row.len(), width, String::from_utf8_lossy(row)), mk());
                    break;
                }
                if std::str::from_utf8(row).is_ok() && row.ends_with("\u{fffd}".as_bytes()) && row.len() + 3 > width {
                    // a replacement character at the cut: the line was cut inside a character
                    // (only a claim when the line itself had none there; raw-byte lines are skipped below)
                    rep.count("last_line_rows_ending_in_replacement", 1);
                }
            }
        }
    }
    // after a resize, frames drawn from the second one on must respect the new width
    if let (Some(at), Some(newc)) = (resized_at, resized_to) {
        let after = &pty.3[at.min(pty.3.len())..];
        // skip the frame that may have been in flight: start at the second "clear below" sequence
        let mut starts = Vec::new();
        let mut i = 0;
        while i + 3 <= after.len() {
            if &after[i..i + 3] == b"\x1b[J" {
                starts.push(i);
            }
            i += 1;
        }
        if starts.len() >= 2 {
            let text = strip_ansi(&after[starts[1]..]);
            let width = (newc as usize).max(12);
            rep.count("frames_after_resize_checked", 1);
            for l in text.lines() {
                if l.ends_with("...") && l.len() > width && !l.starts_with("n2:") {
                    rep.violation("line-wider-than-resized-terminal", &format!("after the terminal was resized from {} to {} columns a cut line is {} bytes: {:?}", cols, newc, l.len(), l), mk());
                    break;
                }
            }
        }
    }
    rep.nontrivial.insert(fnv(manifest.as_bytes()) ^ cols as u64);
    rep.sample(|| J::obj().with("case", J::i(case)).with("cols", J::i(cols)).with("tasks", J::i(ntasks)).with("pty_output_bytes", J::i(pty.3.len())));
    let _ = std::fs::remove_dir_all(&twin);
}

/// C06: deep dependency chains through the real binary (`-t restat`, so that no command runs).
pub fn c06_deep_chain_case(ctx: &Ctx, env: &RealEnv, dir: &Path, case: u64, seed: u64, rep: &mut Report) {
    let mut rng = Rng::new(seed);
    let depth = if ctx.thorough() && case % 3 == 0 { 60_000 } else { *rng.pick(&[500usize, 1000, 2000]) };
    clear_dir(dir);
    let mut m = String::from("rule t\n  command = touch $out\n");
    m.push_str("build o0: t\n");
    for i in 1..depth {
        m.push_str(&format!("build o{}: t o{}\n", i, i - 1));
    }
    std::fs::write(dir.join("build.ninja"), &m).unwrap();
    for i in 0..depth {
        std::fs::write(dir.join(format!("o{}", i)), b"").unwrap();
    }
    let w = crate::sim::World::new(dir.to_path_buf(), Project { manifest: "build.ninja".into(), ..Default::default() });
    let inv = RInv { adopt: true, targets: vec![format!("o{}", depth - 1)], timeout_s: 120, ..Default::default() };
    let out = run_real(env, &w, &inv);
    rep.evaluations += 1;
    rep.count("deep_chain_cases", 1);
    rep.max("max_chain_depth", depth as u64);
    let mk = || J::obj().with("case", J::i(case)).with("chain_depth", J::i(depth)).with("trace", out.trace_json()).with("stderr", J::bytes(&out.stderr[..out.stderr.len().min(400)]));
    if out.timed_out {
        rep.inconclusive.push(format!("case {}: chain of {} timed out", case, depth));
        return;
    }
    if out.exit != Some(0) {
        let se = String::from_utf8_lossy(&out.stderr);
        let sig = if se.contains("stack overflow") || out.signal == Some(libc::SIGSEGV) || out.signal == Some(libc::SIGABRT) { "stack-overflow-deep-chain" } else { "deep-chain-failed" };
        rep.violation(sig, &format!("dependency chain of {} steps: n2 -t restat ended with exit {:?} signal {:?}: {}", depth, out.exit, out.signal, se.chars().take(200).collect::<String>()), mk());
    } else {
        rep.nontrivial.insert(fnv(b"chain") ^ depth as u64);
    }
}

// ------------------------------------------------------------------------
// C08 through the real binary: names that are not valid UTF-8

fn os(b: &[u8]) -> &std::ffi::OsStr {
    use std::os::unix::ffi::OsStrExt;
    std::ffi::OsStr::from_bytes(b)
}

/// C08: what was recorded for a step is what is loaded for it, whatever bytes its file names are made of
/// (Latin-1 names in old source trees, arbitrary bytes above 0x7f), across manifest rewrites that leave
/// the step alone.  Commands are plain shell; every run appends the step's id to `runlog`.
pub fn c08_rawname_case(ctx: &Ctx, env: &RealEnv, dir: &Path, case: u64, seed: u64, rep: &mut Report) {
    let _ = ctx;
    let mut rng = Rng::new(seed);
    clear_dir(dir);
    let out_names: [&[u8]; 8] = [b"plain.out", b"caf\xe9.out", b"reykjav\xc3\xadk.out", b"x\xff\xfey.o", b"\x80.o", b"d\xe9p/na\xefve.o", b"sub/\xe4\xf6\xfc.o", b"ascii_only.o"];
    let hdr_names: [&[u8]; 4] = [b"t\xeate.h", b"plain.h", b"h\xc3\xa9.h", b"inc/\xff.h"];
    let n = rng.range(2, 5);
    let mut picks: Vec<usize> = (0..out_names.len()).collect();
    rng.shuffle(&mut picks);
    struct S {
        out: Vec<u8>,
        src: String,
        dep_on: Option<usize>,
        hdr: Option<Vec<u8>>,
    }
    let mut steps: Vec<S> = Vec::new();
    for i in 0..n {
        let dep_on = if i > 0 && rng.chance(1, 2) { Some(rng.below(i)) } else { None };
        let hdr = if rng.chance(1, 2) { Some(rng.pick(&hdr_names[..]).to_vec()) } else { None };
        steps.push(S { out: out_names[picks[i]].to_vec(), src: format!("src{}.in", i), dep_on, hdr });
    }
    let write = |name: &[u8], content: &[u8]| {
        let p = dir.join(os(name));
        if let Some(parent) = p.parent() {
            let _ = std::fs::create_dir_all(parent);
        }
        std::fs::write(&p, content).unwrap();
    };
    for s in &steps {
        write(s.src.as_bytes(), s.src.as_bytes());
        if let Some(h) = &s.hdr {
            write(h, b"h");
        }
    }
    let octal = |b: &[u8]| -> Vec<u8> {
        let mut v = Vec::new();
        for &c in b {
            if c >= 0x80 {
                v.extend_from_slice(format!("\\{:03o}", c).as_bytes());
            } else {
                v.push(c);
            }
        }
        v
    };
    // manifest text: `order` permutes the statements, `prefix` renames the rules, `extra` adds a new step
    let render = |order: &[usize], prefix: &str, comment: bool, extra: bool| -> Vec<u8> {
        let mut m: Vec<u8> = Vec::new();
        if comment {
            m.extend_from_slice(b"# rewritten\n");
        }
        for &i in order {
            let s = &steps[i];
            m.extend_from_slice(format!("rule {}r{}\n  command = echo s{} >> runlog; cat $in > $out", prefix, i, i).as_bytes());
            if let Some(h) = &s.hdr {
                m.extend_from_slice(b"; printf '$out: ");
                m.extend_from_slice(&octal(h));
                m.extend_from_slice(b"\\n' > $out.d\n  depfile = $out.d");
            }
            m.extend_from_slice(b"\nbuild ");
            m.extend_from_slice(&s.out);
            m.extend_from_slice(format!(": {}r{} {}", prefix, i, s.src).as_bytes());
            if let Some(d) = s.dep_on {
                m.push(b' ');
                m.extend_from_slice(&steps[d].out);
            }
            m.push(b'\n');
            if comment {
                m.extend_from_slice(b"# between\n");
            }
        }
        if extra {
            m.extend_from_slice(b"rule extra_r\n  command = echo extra >> runlog; cat $in > $out\nbuild extra.out: extra_r src0.in\n");
        }
        m
    };
    let mut order: Vec<usize> = (0..n).collect();
    let runlog = || -> Vec<String> { std::fs::read_to_string(dir.join("runlog")).unwrap_or_default().lines().map(|l| l.to_string()).collect() };
    let w = crate::sim::World::new(dir.to_path_buf(), Project { manifest: "build.ninja".into(), ..Default::default() });
    let inv = RInv { j: Some(*rng.pick(&[1usize, 4])), timeout_s: 60, ..Default::default() };
    let downstream = |roots: &[usize]| -> BTreeSet<String> {
        let mut set: BTreeSet<usize> = roots.iter().copied().collect();
        loop {
            let before = set.len();
            for (i, s) in steps.iter().enumerate() {
                if let Some(d) = s.dep_on {
                    if set.contains(&d) {
                        set.insert(i);
                    }
                }
            }
            if set.len() == before {
                break;
            }
        }
        set.iter().map(|i| format!("s{}", i)).collect()
    };
    let mut history: Vec<String> = Vec::new();
    let mut manifest = render(&order, "", false, false);
    let mut extra_present = false;
    let nbuilds = rng.range(3, 5);
    let mut expected: BTreeSet<String> = (0..n).map(|i| format!("s{}", i)).collect();
    let mut stamp = 0u64;
    for b in 0..nbuilds {
        std::fs::write(dir.join("build.ninja"), &manifest).unwrap();
        let before = runlog().len();
        let out = run_real(env, &w, &inv);
        rep.evaluations += 1;
        let ran: Vec<String> = runlog()[before.min(runlog().len())..].to_vec();
        let ran_set: BTreeSet<String> = ran.iter().cloned().collect();
        let so = String::from_utf8_lossy(&out.stdout).into_owned();
        history.push(format!("build {}: exit {:?}, ran {:?}", b, out.exit, ran));
        let mk = || J::obj().with("case", J::i(case)).with("manifest", J::bytes(&manifest)).with("history", J::strs(history.iter().cloned())).with("stdout", J::s(so.chars().take(800).collect::<String>())).with("stderr", J::bytes(&out.stderr[..out.stderr.len().min(600)]));
        if let Some(tool) = sanitizer_report(&out) {
            rep.violation(&format!("sanitizer-report:{}", tool), &String::from_utf8_lossy(&out.stderr).chars().take(1500).collect::<String>(), mk());
            return;
        }
        if out.timed_out {
            rep.inconclusive.push(format!("case {}: timeout", case));
            return;
        }
        if out.exit != Some(0) {
            let se = String::from_utf8_lossy(&out.stderr);
            let sig = if se.contains("panicked") { "rawname-panic" } else { "rawname-build-failed" };
            rep.violation(sig, &format!("build {} of a tree with non-UTF-8 names ended {:?}/{:?}", b, out.exit, out.signal), mk());
            return;
        }
        if ran.len() != ran_set.len() {
            rep.violation("rawname-ran-twice", &format!("a command ran twice in one invocation: {:?}", ran), mk());
            return;
        }
        if ran_set != expected {
            let sig = if ran_set.is_superset(&expected) { "rawname-ran-unchanged-step" } else { "rawname-skipped-dirty-step" };
            rep.violation(sig, &format!("build {}: ran {:?}, expected {:?}", b, ran_set, expected), mk());
            return;
        }
        if expected.is_empty() && !so.contains("no work to do") {
            rep.violation("rawname-noop-not-reported", &format!("nothing ran but n2 says {:?}", so), mk());
        }
        rep.count("rawname_builds_checked", 1);
        // next: nothing / manifest rewrite / source edit / header edit
        expected = BTreeSet::new();
        match rng.below(4) {
            0 => history.push("no change".into()),
            1 => {
                rng.shuffle(&mut order);
                let add = !extra_present && rng.chance(1, 2);
                if add {
                    extra_present = true;
                    expected.insert("extra".into());
                }
                manifest = render(&order, &format!("p{}_", b), rng.chance(1, 2), extra_present);
                history.push(format!("manifest rewritten: order {:?}, rules renamed{}", order, if add { ", new step extra" } else { "" }));
            }
            2 => {
                let k = rng.below(n);
                stamp += 1;
                let p = dir.join(&steps[k].src);
                std::fs::write(&p, format!("{} v{}", steps[k].src, stamp)).unwrap();
                let f = std::fs::File::options().write(true).open(&p).unwrap();
                let _ = f.set_modified(std::time::SystemTime::now() + std::time::Duration::from_secs(stamp * 3));
                expected = downstream(&[k]);
                if k == 0 && extra_present {
                    expected.insert("extra".into());
                }
                history.push(format!("source {} modified", steps[k].src));
            }
            _ => {
                let with_hdr: Vec<usize> = (0..n).filter(|&i| steps[i].hdr.is_some()).collect();
                if with_hdr.is_empty() {
                    history.push("no change".into());
                } else {
                    let k = *rng.pick(&with_hdr);
                    let h = steps[k].hdr.clone().unwrap();
                    stamp += 1;
                    let p = dir.join(os(&h));
                    std::fs::write(&p, format!("h{}", stamp)).unwrap();
                    let f = std::fs::File::options().write(true).open(&p).unwrap();
                    let _ = f.set_modified(std::time::SystemTime::now() + std::time::Duration::from_secs(stamp * 3));
                    // every step that reported this header
                    let roots: Vec<usize> = (0..n).filter(|&i| steps[i].hdr.as_ref() == Some(&h)).collect();
                    expected = downstream(&roots);
                    history.push(format!("header {:?} modified", String::from_utf8_lossy(&h)));
                }
            }
        }
    }
    if steps.iter().any(|s| std::str::from_utf8(&s.out).is_err() || s.hdr.as_ref().map(|h| std::str::from_utf8(h).is_err()).unwrap_or(false)) {
        rep.nontrivial.insert(fnv(&manifest) ^ seed);
        rep.count("rawname_histories_with_invalid_utf8", 1);
        rep.sample(|| J::obj().with("case", J::i(case)).with("history", J::strs(history.iter().cloned())));
    }
}
