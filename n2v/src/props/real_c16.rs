//! C16 (black box): commands run as written, environment, output capture, status decoding.
use super::realp::*;
use crate::ap::*;
use crate::json::J;
use crate::real::*;
use crate::report::Report;
use crate::rng::{fnv, fnv_combine, Rng};
use crate::sim::clear_dir;
use crate::Ctx;
use std::collections::BTreeMap;

const SIZES: [usize; 12] = [0, 1, 2, 4095, 4096, 4097, 8192, 65535, 65536, 65537, 150000, 300000];

/// Shell command templates for the "as written" clause.  `{f}` is a unique file stem.
const SHELL: [&str; 12] = [
    "echo \"a  b\" > {f}.1",
    "printf '%s\\n' 'single $HOME' > {f}.2",
    "(cd . && echo sub) > {f}.3 2>&1",
    "x=1; echo $x${x}y > {f}.4",
    "cat < /dev/null > {f}.5 && test ! -s {f}.5 && echo ok > {f}.6",
    "echo 'back\\slash' \"dq \\\"esc\\\"\" > {f}.7",
    "echo tab\there > {f}.8",
    "echo é ビ 😀 > {f}.9",
    ": > \"{f} sp ace\"",
    "echo one > {f}.a; echo two >&2; exit 3",
    "echo $$ > /dev/null; echo `echo bt` $(echo dp) > {f}.b",
    "if [ -t 0 ]; then echo tty > {f}.c; else echo notty > {f}.c; fi; wc -c < /dev/stdin > {f}.d",
];

fn esc_val(s: &str) -> String {
    s.replace('$', "$$")
}

fn occurrences(hay: &[u8], needle: &[u8]) -> usize {
    if needle.is_empty() || hay.len() < needle.len() {
        return 0;
    }
    let mut n = 0;
    let mut i = 0;
    while i + needle.len() <= hay.len() {
        if &hay[i..i + needle.len()] == needle {
            n += 1;
            i += needle.len();
        } else {
            i += 1;
        }
    }
    n
}

pub fn case(ctx: &Ctx, env: &RealEnv, dir: &std::path::Path, case: u64, seed: u64, rep: &mut Report) {
    let mut rng = Rng::new(seed);
    if case % 3 == 2 {
        return shell_case(ctx, env, dir, case, &mut rng, rep);
    }
    if case % 12 == 7 {
        return sigint_case(ctx, env, dir, case, &mut rng, rep);
    }
    if case % 12 == 3 {
        return super::real_gated::c16_interrupt_case(ctx, env, dir, case, seed, rep);
    }
    if case % 4 == 1 {
        // the same clause with n2 writing to a terminal (a different display implementation)
        return super::real_gated::c16_pty_case(ctx, env, dir, case, seed, rep);
    }
    // ---- many independent tasks with planned output, exit codes and signals
    // every other main case is a light one (few tasks, small outputs, no failing command), so that the
    // second invocation with changed response files happens often
    let light = case % 2 == 0;
    let ntasks = if light { rng.range(2, 6) } else if ctx.thorough() { rng.range(8, 64) } else { rng.range(4, 20) };
    let mut p = Project { manifest: "build.ninja".into(), agent: env.agent.to_string_lossy().into_owned(), ..Default::default() };
    p.sources.push("in.txt".into());
    for i in 0..ntasks {
        let id = format!("t{}", i);
        let out = match rng.below(4) {
            0 => format!("deep/er/dir{}/o{}", i, i),
            1 => format!("out/o{}", i),
            _ => format!("o{}", i),
        };
        let mut s = Step {
            id: id.clone(),
            outs: vec![out],
            iouts: vec![],
            ins: vec!["in.txt".into()],
            imps: vec![],
            oos: vec![],
            vals: vec![],
            phony: false,
            ver: 1,
            pool: None,
            rsp: None,
            depfile: None,
            msvc: false,
            desc: Some(format!("D{}", id)),
            effect: Effect::Write,
            extra_reads: vec![],
            discovers: false,
        };
        // `deps = msvc` switches on a filter for include notes; everything else a command prints passes intact
        s.msvc = rng.chance(1, 3);
        if rng.chance(1, 4) {
            // a second output below the first one's directory, and a third elsewhere
            let base = std::path::Path::new(&s.outs[0]).parent().map(|p| p.to_string_lossy().into_owned()).unwrap_or_default();
            let sep = if base.is_empty() { "" } else { "/" };
            s.outs.push(format!("{}{}nested{}/more/o{}b", base, sep, i, i));
            if rng.chance(1, 2) {
                s.iouts.push(format!("other{}/o{}c", i, i));
            }
        }
        if rng.chance(if light { 3 } else { 1 }, 4) {
            let content = *rng.pick(&["a b c", "\"quoted\" 'single'", "é ビ 😀", "x  y   z", "-I. -DX=\"1 2\""]);
            s.rsp = Some((format!("rsp/dir{}/{}.rsp", i % 3, id), content.to_string()));
        }
        p.steps.push(s);
    }
    clear_dir(dir);
    let mut w = crate::sim::World::new(dir.to_path_buf(), p);
    w.init_sources(&mut rng);
    w.write_manifest();
    std::fs::create_dir_all(dir.join(".n2v")).unwrap();
    let mut inv = RInv::default();
    inv.j = Some(*rng.pick(&[1usize, 2, 4, 8, 16]));
    inv.k = Some(1000);
    let mut expected_fail: BTreeMap<String, &'static str> = BTreeMap::new();
    let mut total_out = 0usize;
    for s in w.proj.steps.clone() {
        // output
        if rng.chance(3, 4) {
            let total = if light { *rng.pick(&[0usize, 1, 100, 5000]) } else { *rng.pick(&SIZES) };
            if total_out + total > (if ctx.thorough() { 4_000_000 } else { 1_200_000 }) {
                continue;
            }
            total_out += total;
            let mut chunks = Vec::new();
            let mut left = total;
            while left > 0 {
                let n = match rng.below(4) {
                    0 => 1,
                    1 => rng.range(1, 70).min(left),
                    2 => rng.range(1, 5000).min(left),
                    _ => rng.range(1, 70000).min(left),
                }
                .min(left);
                chunks.push((if rng.chance(1, 3) { 2 } else { 1 }, n, if rng.chance(1, 8) { rng.below(4) as u64 } else { 0 }));
                left -= n;
                if chunks.len() > 300 {
                    chunks.push((1, left, 0));
                    break;
                }
            }
            inv.outputs.insert(s.id.clone(), OutSpec { chunks, final_newline: rng.chance(2, 3) });
        }
        // status
        match if light { 9 } else { rng.below(10) } {
            0 | 1 => {
                inv.faults.insert(s.id.clone(), crate::model::FailMode::All);
                let any = rng.range(1, 255) as i32;
                inv.exit_codes.insert(s.id.clone(), *rng.pick(&[1, 2, 3, 126, 127, 128, 255, any]));
                expected_fail.insert(s.id.clone(), "failed");
            }
            2 => {
                inv.faults.insert(s.id.clone(), crate::model::FailMode::All);
                let sig = *rng.pick(&[libc::SIGHUP, libc::SIGTERM, libc::SIGKILL, libc::SIGUSR1, libc::SIGPIPE]);
                inv.signals.insert(s.id.clone(), (sig, true));
                expected_fail.insert(s.id.clone(), "failed");
            }
            _ => {}
        }
        if rng.chance(1, 3) {
            inv.sleeps.insert(s.id.clone(), rng.below(10) as u64);
        }
    }
    scan(&mut w);
    write_plan(env, &w, &inv, &mut rng);
    let out = run_real(env, &w, &inv);
    rep.evaluations += 1;
    let proj_before = w.proj.clone();
    let pred = super::predict_inv(&w, &inv.as_sim_inv());
    let hist = vec![J::obj().with("tasks", J::i(ntasks)).with("invocation", inv.to_json())];
    let mk = || J::obj().with("case", J::i(case)).with("invocation", inv.to_json()).with("trace", out.trace_json());
    if !judge_real(ctx, rep, case, &hist, &proj_before, &pred, &inv, &out, &w, &Default::default()) || out.timed_out {
        return;
    }
    // every task started exactly once (all dirty, independent, generous -k)
    let started = out.started();
    if started.len() != ntasks {
        rep.violation("task-count", &format!("{} of {} tasks started: {:?}", started.len(), ntasks, started), mk());
    }
    // output: each task's byte stream exactly once, contiguous
    let mut big_overlap = 0;
    for (id, spec) in &inv.outputs {
        let total: usize = spec.chunks.iter().map(|c| c.1).sum();
        if total == 0 {
            continue;
        }
        let stream = crate::agent_stream::make_stream(id, total, spec.final_newline);
        let n = occurrences(&out.stdout, &stream);
        rep.count("task_outputs_checked", 1);
        rep.count("output_bytes_checked", total as u64);
        // streams shorter than a tagged line are not unique in the output; presence is all that can be asked
        if total < 24 {
            if n == 0 {
                rep.violation("output-not-intact", &format!("task {} wrote {} bytes which do not appear in n2's output", id, total), mk());
            }
            continue;
        }
        if n != 1 {
            // diagnose: count tagged lines
            let tag = format!("{}:", id);
            let lines = out.stdout.split(|&c| c == b'\n').filter(|l| l.starts_with(tag.as_bytes())).count();
            rep.violation(
                "output-not-intact",
                &format!("task {} wrote {} bytes; its stream occurs {} time(s) contiguously in n2's output ({} lines tagged {} present, {} expected)", id, total, n, lines, tag, stream.split(|&c| c == b'\n').count()),
                mk(),
            );
        }
        if total >= 4096 {
            big_overlap += 1;
        }
    }
    // status decoding: a `failed: D<id>` line for each failing task and for no other
    let so = String::from_utf8_lossy(&out.stdout).into_owned();
    for s in &w.proj.steps {
        let line = format!("failed: D{}\n", s.id);
        let has = so.contains(&line);
        let want = expected_fail.contains_key(&s.id);
        if has != want {
            rep.violation(
                if want { "failure-not-reported" } else { "success-reported-as-failure" },
                &format!("task {} (exit {:?}, signal {:?}): `failed:` line present={} expected={}", s.id, inv.exit_codes.get(&s.id), inv.signals.get(&s.id), has, want),
                mk(),
            );
        }
    }
    let want_exit = if expected_fail.is_empty() { 0 } else { 1 };
    if out.exit != Some(want_exit) {
        rep.violation("exit-status", &format!("exit {:?}, expected {} ({} failing tasks)", out.exit, want_exit, expected_fail.len()), mk());
    }
    // second invocation: response-file contents get shorter; the commands must see exactly the new content
    let with_rsp: Vec<usize> = (0..w.proj.steps.len()).filter(|&i| w.proj.steps[i].rsp.is_some()).collect();
    if !with_rsp.is_empty() && expected_fail.is_empty() {
        sync_after(&mut w, &proj_before, &inv, &out);
        for &i in &with_rsp {
            if let Some((p, c)) = w.proj.steps[i].rsp.clone() {
                let changed: String = if rng.chance(1, 2) {
                    c.chars().take((c.chars().count() / 2).max(1)).collect()
                } else {
                    // same length, other content
                    let mut v: Vec<char> = c.chars().collect();
                    let last = v.len() - 1;
                    v[last] = if v[last] == 'q' { 'r' } else { 'q' };
                    v.into_iter().collect()
                };
                w.proj.steps[i].rsp = Some((p, changed));
            }
        }
        write_manifest_real(&mut w);
        let inv2 = RInv { j: inv.j, k: Some(1000), ..Default::default() };
        scan(&mut w);
        let pb2 = w.proj.clone();
        let pred2 = super::predict_inv(&w, &inv2.as_sim_inv());
        write_plan(env, &w, &inv2, &mut rng);
        let out2 = run_real(env, &w, &inv2);
        rep.evaluations += 1;
        rep.count("rspfile_rewrite_invocations", 1);
        let hist2 = vec![J::obj().with("tasks", J::i(ntasks)).with("second-invocation", J::s("response files shortened"))];
        judge_real(ctx, rep, case, &hist2, &pb2, &pred2, &inv2, &out2, &w, &Default::default());
        let reran: Vec<String> = out2.started();
        for &i in &with_rsp {
            if !reran.contains(&w.proj.steps[i].id) {
                rep.violation("rspfile-change-not-rerun", &format!("step {} has a new response file content but was not re-run", w.proj.steps[i].id), J::obj().with("case", J::i(case)).with("trace", out2.trace_json()));
            }
        }
    }
    let conc = out.max_overlap(&|_| true);
    if big_overlap >= 2 && conc >= 2 {
        let mut sig = fnv(b"c16");
        for e in &out.events {
            sig = fnv_combine(sig, fnv(e.step.as_bytes()) ^ e.kind as u64);
        }
        rep.nontrivial.insert(sig);
        rep.sample(|| J::obj().with("case", J::i(case)).with("tasks", J::i(ntasks)).with("j", J::i(inv.j.unwrap_or(0))).with("max_overlap", J::i(conc)).with("output_sizes", J::Arr(inv.outputs.values().map(|s| J::i(s.chunks.iter().map(|c| c.1).sum::<usize>())).collect())));
    }
}

/// "As written": n2 runs shell snippets; the harness runs the same strings with
/// `/bin/sh -c` in a twin directory and compares the files produced.
fn shell_case(ctx: &Ctx, env: &RealEnv, dir: &std::path::Path, case: u64, rng: &mut Rng, rep: &mut Report) {
    let twin = dir.with_file_name("twin");
    clear_dir(dir);
    let _ = std::fs::create_dir_all(&twin);
    clear_dir(&twin);
    let n = rng.range(2, 8);
    let mut manifest = String::new();
    let mut cmds: Vec<(String, String)> = Vec::new();
    for i in 0..n {
        let t = *rng.pick(&SHELL[..]);
        let stem = format!("f{}", i);
        let cmd = t.replace("{f}", &stem);
        manifest.push_str(&format!("rule r{}\n  command = {}\n  description = S{}\nbuild stamp{}: r{}\n", i, esc_val(&cmd), i, i, i));
        cmds.push((format!("S{}", i), cmd));
    }
    std::fs::write(dir.join("build.ninja"), &manifest).unwrap();
    let w = crate::sim::World::new(dir.to_path_buf(), Project { manifest: "build.ninja".into(), ..Default::default() });
    let mut inv = RInv::default();
    inv.j = Some(*rng.pick(&[1usize, 4]));
    inv.k = Some(1000);
    let use_strace = ctx.arg("--strace").is_some() && (ctx.thorough() || case % 9 == 2);
    let env2;
    let envr: &RealEnv = if use_strace {
        env2 = RealEnv { n2: env.n2.clone(), agent: env.agent.clone(), wrapper: vec!["strace".into(), "-f".into(), "-qq".into(), "-e".into(), "trace=execve".into(), "-s".into(), "100000".into(), "-o".into(), dir.join(".strace").to_string_lossy().into_owned()] };
        &env2
    } else {
        env
    };
    let out = run_real(envr, &w, &inv);
    rep.evaluations += 1;
    rep.count("shell_cases", 1);
    let mk = || J::obj().with("case", J::i(case)).with("manifest", J::s(&manifest)).with("trace", out.trace_json());
    if let Some(tool) = sanitizer_report(&out) {
        rep.violation(&format!("sanitizer-report:{}", tool), &String::from_utf8_lossy(&out.stderr).chars().take(1500).collect::<String>(), mk());
        return;
    }
    if out.timed_out {
        rep.inconclusive.push(format!("case {}: timeout", case));
        return;
    }
    // twin
    for (_, cmd) in &cmds {
        let _ = std::process::Command::new("/bin/sh").arg("-c").arg(cmd).current_dir(&twin).stdin(std::process::Stdio::null()).output();
    }
    let list = |d: &std::path::Path| -> BTreeMap<String, Vec<u8>> {
        let mut m = BTreeMap::new();
        if let Ok(rd) = std::fs::read_dir(d) {
            for e in rd.flatten() {
                let name = e.file_name().to_string_lossy().into_owned();
                if name.starts_with('.') || name == "build.ninja" {
                    continue;
                }
                if e.path().is_file() {
                    m.insert(name, std::fs::read(e.path()).unwrap_or_default());
                }
            }
        }
        m
    };
    let a = list(dir);
    let b = list(&twin);
    rep.count("twin_files_compared", b.len() as u64);
    if a != b {
        let diff: Vec<String> = b.iter().filter(|(k, v)| a.get(*k) != Some(*v)).map(|(k, v)| format!("{}: n2 {:?} vs sh {:?}", k, a.get(k).map(|x| String::from_utf8_lossy(x).into_owned()), String::from_utf8_lossy(v))).chain(a.keys().filter(|k| !b.contains_key(*k)).map(|k| format!("{} only under n2", k))).collect();
        rep.violation("command-not-as-written", &format!("files differ from running the same strings with /bin/sh -c: {:?}", diff), mk());
    }
    if use_strace {
        let text = std::fs::read_to_string(dir.join(".strace")).unwrap_or_default();
        let mut seen: Vec<Vec<String>> = Vec::new();
        for l in text.lines() {
            if let Some(i) = l.find("execve(\"/bin/sh\", [") {
                if let Some(argv) = parse_strace_argv(&l[i + "execve(\"/bin/sh\", ".len()..]) {
                    seen.push(argv);
                }
            }
        }
        rep.count("execve_observed", seen.len() as u64);
        for (_, cmd) in &cmds {
            let want = vec!["/bin/sh".to_string(), "-c".to_string(), cmd.clone()];
            if !seen.contains(&want) {
                rep.violation("argv-differs", &format!("no execve with argv {:?}; observed {:?}", want, seen), mk());
            }
        }
    }
    rep.nontrivial.insert(fnv(manifest.as_bytes()));
    let _ = env;
}

/// Parse `["a", "b\"c", ...]` as printed by strace.
fn parse_strace_argv(s: &str) -> Option<Vec<String>> {
    let b = s.as_bytes();
    if b.first() != Some(&b'[') {
        return None;
    }
    let mut i = 1;
    let mut out = Vec::new();
    loop {
        while i < b.len() && (b[i] == b' ' || b[i] == b',') {
            i += 1;
        }
        if i >= b.len() {
            return None;
        }
        if b[i] == b']' {
            return Some(out);
        }
        if b[i] != b'"' {
            return None;
        }
        i += 1;
        let mut cur = Vec::new();
        while i < b.len() && b[i] != b'"' {
            if b[i] == b'\\' && i + 1 < b.len() {
                i += 1;
                match b[i] {
                    b'n' => cur.push(b'\n'),
                    b't' => cur.push(b'\t'),
                    b'r' => cur.push(b'\r'),
                    b'v' => cur.push(11),
                    b'f' => cur.push(12),
                    b'0'..=b'7' => {
                        let mut v = 0u32;
                        let mut k = 0;
                        while k < 3 && i < b.len() && (b'0'..=b'7').contains(&b[i]) {
                            v = v * 8 + (b[i] - b'0') as u32;
                            i += 1;
                            k += 1;
                        }
                        cur.push(v as u8);
                        continue;
                    }
                    b'x' => {
                        let h = std::str::from_utf8(&b[i + 1..i + 3]).ok()?;
                        cur.push(u8::from_str_radix(h, 16).ok()?);
                        i += 2;
                    }
                    c => cur.push(c),
                }
                i += 1;
            } else {
                cur.push(b[i]);
                i += 1;
            }
        }
        i += 1;
        out.push(String::from_utf8_lossy(&cur).into_owned());
    }
}

/// Ctrl-C: SIGINT reaches n2 and its commands; the build stops and the exit status is non-zero.
fn sigint_case(ctx: &Ctx, env: &RealEnv, dir: &std::path::Path, case: u64, rng: &mut Rng, rep: &mut Report) {
    let _ = ctx;
    // a chain-free set of slow tasks, more than -j, so that some are still queued when the signal arrives
    let ntasks = rng.range(6, 14);
    let mut p = Project { manifest: "build.ninja".into(), agent: env.agent.to_string_lossy().into_owned(), ..Default::default() };
    p.sources.push("in.txt".into());
    for i in 0..ntasks {
        p.steps.push(Step {
            id: format!("t{}", i),
            outs: vec![format!("o{}", i)],
            iouts: vec![],
            ins: vec!["in.txt".into()],
            imps: vec![],
            oos: vec![],
            vals: vec![],
            phony: false,
            ver: 1,
            pool: None,
            rsp: None,
            depfile: None,
            msvc: false,
            desc: Some(format!("Dt{}", i)),
            effect: Effect::Write,
            extra_reads: vec![],
            discovers: false,
        });
    }
    clear_dir(dir);
    let mut w = crate::sim::World::new(dir.to_path_buf(), p);
    w.init_sources(rng);
    w.write_manifest();
    std::fs::create_dir_all(dir.join(".n2v")).unwrap();
    let mut inv = RInv::default();
    inv.j = Some(*rng.pick(&[1usize, 2, 3]));
    inv.k = Some(*rng.pick(&[1usize, 100]));
    for s in &w.proj.steps {
        inv.sleeps.insert(s.id.clone(), 150 + rng.below(100) as u64);
    }
    inv.sigint_after_ms = Some(60 + rng.below(120) as u64);
    inv.timeout_s = 30;
    scan(&mut w);
    write_plan(env, &w, &inv, rng);
    let out = run_real(env, &w, &inv);
    rep.evaluations += 1;
    rep.count("sigint_cases", 1);
    let mk = || J::obj().with("case", J::i(case)).with("invocation", inv.to_json()).with("sigint_after_ms", J::i(inv.sigint_after_ms.unwrap_or(0))).with("trace", out.trace_json());
    if out.timed_out {
        rep.violation("sigint-does-not-stop-build", "n2 still running 30 s after SIGINT", mk());
        return;
    }
    let Some(t_sig) = out.sigint_ns else {
        rep.count("sigint_too_late", 1);
        return;
    };
    if out.exit == Some(0) {
        rep.violation("sigint-exit-zero", &format!("build interrupted by SIGINT but exit status 0; started {:?}", out.started()), mk());
    }
    // Commands running when the signal arrived die.  Before n2 sees the first of those deaths it may
    // still process completions that were already queued and start a successor for each: at most -j
    // starts can follow the signal (a logical bound; no wall-clock grace period is involved).
    // (With no command executing when the signal arrived -- a slow n2 had not started any yet -- nothing
    // dies and n2 carries on; only the exit status tells then.)
    let executing_at_signal = out.events.iter().filter(|e| e.kind == 'S' && e.ns <= t_sig).count() > out.events.iter().filter(|e| e.kind == 'E' && e.ns <= t_sig).count();
    if !executing_at_signal {
        rep.count("sigint_with_nothing_executing", 1);
    }
    let late: Vec<String> = out.events.iter().filter(|e| e.kind == 'S' && e.ns > t_sig).map(|e| e.step.clone()).collect();
    if executing_at_signal && late.len() > inv.j.unwrap_or(16) {
        rep.violation("start-after-sigint", &format!("{} commands ({:?}) were started after SIGINT with -j {}", late.len(), late, inv.j.unwrap_or(16)), mk());
    }
    if out.started().len() < ntasks {
        rep.nontrivial.insert(fnv(format!("sigint{}{:?}", ntasks, out.started()).as_bytes()));
    }
}
