//! E2 sessions in which every command waits for the harness ("gated" commands).
//!
//! A gated command announces itself by creating `started/<name>`, then blocks reading the FIFO
//! `release/<name>` and only finishes (creating its output, or failing) once the harness has written
//! to that FIFO.  Between two releases nothing in the build can change, so the harness can compare
//! what n2 shows or does with the true state at a quiescent point, free of timing assumptions:
//!
//! * C19 under a pseudo-terminal: the `D/T done, R/M running` line of the progress display must
//!   converge to the true counts while the state is frozen;
//! * C05: SIGINT arrives while commands that trap it (and exit 0 without doing their work) run.
use crate::json::J;
use crate::real::*;
use crate::report::Report;
use crate::rng::{fnv, Rng};
use crate::sim::clear_dir;
use crate::Ctx;
use std::collections::{BTreeMap, BTreeSet};
use std::path::{Path, PathBuf};
use std::time::{Duration, Instant};

pub struct Session {
    child: std::process::Child,
    pid: i32,
    fd: libc::c_int,
    pub shown: Vec<u8>,
    pub dir: PathBuf,
    status: Option<std::process::ExitStatus>,
}

impl Session {
    /// Start n2 in `dir` with all three standard streams on a pty of the given size, or (no pty)
    /// stdout+stderr on one pipe and stdin at /dev/null.  n2 is the leader of a new process group
    /// (pipe) or session (pty).
    pub fn spawn(env: &RealEnv, dir: &Path, args: &[String], pty: Option<(u16, u16)>) -> Result<Session, String> {
        use std::os::fd::FromRawFd;
        use std::os::unix::process::CommandExt;
        let mut cmd = std::process::Command::new(&env.n2);
        cmd.args(args).current_dir(dir).env("RUST_BACKTRACE", "0");
        cmd.env("ASAN_OPTIONS", "detect_leaks=0:exitcode=98:abort_on_error=0").env("TSAN_OPTIONS", "exitcode=66:halt_on_error=1");
        let fd;
        let is_pty = pty.is_some();
        match pty {
            Some((cols, rows)) => {
                let mut master: libc::c_int = 0;
                let mut slave: libc::c_int = 0;
                let ws = libc::winsize { ws_row: rows, ws_col: cols, ws_xpixel: 0, ws_ypixel: 0 };
                if unsafe { libc::openpty(&mut master, &mut slave, std::ptr::null_mut(), std::ptr::null(), &ws) } != 0 {
                    return Err("openpty failed".into());
                }
                unsafe { libc::fcntl(master, libc::F_SETFD, libc::FD_CLOEXEC) };
                let mk = |f: i32| unsafe { std::process::Stdio::from_raw_fd(libc::dup(f)) };
                cmd.stdin(mk(slave)).stdout(mk(slave)).stderr(mk(slave));
                unsafe { libc::close(slave) };
                fd = master;
            }
            None => {
                let mut p = [0 as libc::c_int; 2];
                if unsafe { libc::pipe(p.as_mut_ptr()) } != 0 {
                    return Err("pipe failed".into());
                }
                unsafe { libc::fcntl(p[0], libc::F_SETFD, libc::FD_CLOEXEC) };
                let mk = |f: i32| unsafe { std::process::Stdio::from_raw_fd(libc::dup(f)) };
                cmd.stdin(std::process::Stdio::null()).stdout(mk(p[1])).stderr(mk(p[1]));
                unsafe { libc::close(p[1]) };
                fd = p[0];
            }
        }
        let unlimited = wants_address_space(env);
        unsafe {
            cmd.pre_exec(move || {
                if is_pty {
                    libc::setsid();
                } else {
                    libc::setpgid(0, 0);
                }
                libc::signal(libc::SIGINT, libc::SIG_DFL);
                libc::signal(libc::SIGQUIT, libc::SIG_DFL);
                libc::signal(libc::SIGHUP, libc::SIG_DFL);
                libc::signal(libc::SIGPIPE, libc::SIG_DFL);
                child_address_space(unlimited);
                Ok(())
            });
        }
        let child = cmd.spawn().map_err(|e| format!("spawn: {}", e))?;
        // the parent's copies of the child's ends are gone when `cmd` is dropped
        drop(cmd);
        unsafe {
            let fl = libc::fcntl(fd, libc::F_GETFL);
            libc::fcntl(fd, libc::F_SETFL, fl | libc::O_NONBLOCK);
        }
        let pid = child.id() as i32;
        Ok(Session { child, pid, fd, shown: Vec::new(), dir: dir.to_path_buf(), status: None })
    }

    /// Read whatever n2 has written so far.
    pub fn pump(&mut self) {
        let mut buf = [0u8; 65536];
        loop {
            let n = unsafe { libc::read(self.fd, buf.as_mut_ptr() as *mut libc::c_void, buf.len()) };
            if n > 0 {
                self.shown.extend_from_slice(&buf[..n as usize]);
            } else {
                break;
            }
        }
    }

    pub fn exited(&mut self) -> bool {
        if self.status.is_none() {
            if let Ok(Some(st)) = self.child.try_wait() {
                self.status = Some(st);
            }
        }
        self.status.is_some()
    }

    /// Names announced in `started/`.
    pub fn started(&self) -> BTreeSet<String> {
        let mut s = BTreeSet::new();
        if let Ok(rd) = std::fs::read_dir(self.dir.join("started")) {
            for e in rd.flatten() {
                s.insert(e.file_name().to_string_lossy().into_owned());
            }
        }
        s
    }

    /// Let the command `name` go on (it has announced itself; it may not have opened the FIFO yet).
    pub fn release(&self, name: &str) -> bool {
        let p = std::ffi::CString::new(self.dir.join("release").join(name).to_string_lossy().as_bytes()).unwrap();
        let t0 = Instant::now();
        loop {
            let fd = unsafe { libc::open(p.as_ptr(), libc::O_WRONLY | libc::O_NONBLOCK) };
            if fd >= 0 {
                unsafe {
                    libc::write(fd, b"go\n".as_ptr() as *const libc::c_void, 3);
                    libc::close(fd);
                }
                return true;
            }
            if t0.elapsed() > Duration::from_secs(10) {
                return false;
            }
            std::thread::sleep(Duration::from_millis(1));
        }
    }

    pub fn signal_group(&self, sig: i32) {
        unsafe { libc::kill(-self.pid, sig) };
    }

    /// Wait for n2 to exit; Some((exit code, signal)) or None on timeout (n2 and its group are killed).
    pub fn wait_exit(&mut self, timeout: Duration) -> Option<(Option<i32>, Option<i32>)> {
        use std::os::unix::process::ExitStatusExt;
        let t0 = Instant::now();
        loop {
            self.pump();
            if self.exited() {
                self.pump();
                let st = self.status.unwrap();
                return Some((st.code(), st.signal()));
            }
            if t0.elapsed() > timeout {
                self.kill();
                return None;
            }
            std::thread::sleep(Duration::from_millis(2));
        }
    }

    pub fn kill(&mut self) {
        unsafe { libc::kill(-self.pid, libc::SIGKILL) };
        let _ = self.child.kill();
        let _ = self.child.wait();
    }
}

impl Drop for Session {
    fn drop(&mut self) {
        if !self.exited() {
            self.kill();
        }
        // commands left behind (n2 gone, they still block on their FIFO)
        unsafe { libc::kill(-self.pid, libc::SIGKILL) };
        unsafe { libc::close(self.fd) };
    }
}

/// Remove ANSI escape sequences and carriage returns.
pub fn strip_ansi(b: &[u8]) -> String {
    let mut out = Vec::new();
    let mut i = 0;
    while i < b.len() {
        if b[i] == 0x1b && i + 1 < b.len() && b[i + 1] == b'[' {
            i += 2;
            while i < b.len() && !(0x40..=0x7e).contains(&b[i]) {
                i += 1;
            }
            i += 1;
        } else if b[i] == b'\r' {
            i += 1;
        } else {
            out.push(b[i]);
            i += 1;
        }
    }
    String::from_utf8_lossy(&out).into_owned()
}

#[derive(Clone, Debug, PartialEq)]
pub struct Frame {
    pub done: usize,
    pub total: usize,
    pub failed: usize,
    pub running: usize,
    pub pending: usize,
    pub bar: String,
}

/// Every `[bar] D/T done, [F failed, ]R/M running` line in the text, in order.
pub fn frames(text: &str) -> Vec<Frame> {
    let mut v = Vec::new();
    for l in text.lines() {
        let Some(a) = l.find('[') else { continue };
        let Some(b) = l[a..].find("] ").map(|x| x + a) else { continue };
        let rest = &l[b + 2..];
        let Some((frac, rest)) = rest.split_once(" done, ") else { continue };
        let Some((d, t)) = frac.split_once('/') else { continue };
        let (Ok(d), Ok(t)) = (d.trim().parse::<usize>(), t.trim().parse::<usize>()) else { continue };
        let (failed, rest) = match rest.split_once(" failed, ") {
            Some((f, r)) => match f.trim().parse::<usize>() {
                Ok(f) => (f, r),
                Err(_) => continue,
            },
            None => (0, rest),
        };
        let Some((rm, _)) = rest.split_once(" running") else { continue };
        let Some((r, m)) = rm.split_once('/') else { continue };
        let (Ok(r), Ok(m)) = (r.trim().parse::<usize>(), m.trim().parse::<usize>()) else { continue };
        v.push(Frame { done: d, total: t, failed, running: r, pending: m, bar: l[a + 1..b].to_string() });
    }
    v
}

struct GTask {
    name: String,
    out: String,
    deps: Vec<usize>,
    /// reach the dependencies through a phony alias (`build alias_N: phony <their outputs>`)
    via_phony: bool,
    pool: Option<String>,
    fails: bool,
    /// traps SIGINT and exits 0 without doing its work
    swallows: bool,
}

fn gated_manifest(tasks: &[GTask], pools: &BTreeMap<String, usize>, rng: &mut Rng, decorate: bool) -> String {
    let mut m = String::new();
    for (p, d) in pools {
        m.push_str(&format!("pool {}\n  depth = {}\n", p, d));
    }
    for t in tasks {
        let trap = if t.swallows { "trap 'exit 0' INT; " } else { "" };
        // (an interrupted open of the FIFO makes the redirection fail: the work is then skipped)
        let fin = if t.fails { "{ echo boom; exit 3; }".to_string() } else { format!(": > {}", t.out) };
        m.push_str(&format!("rule r_{}\n  command = {}: > started/{}; read x < release/{} && {}\n", t.name, trap, t.name, t.name, fin));
        if decorate {
            if rng.chance(1, 2) {
                m.push_str(&format!("  description = D {} ビルド\n", t.name));
            }
            if rng.chance(1, 3) {
                m.push_str("  hide_progress = 1\n");
            }
            if rng.chance(1, 5) {
                m.push_str("  hide_success = 1\n");
            }
        }
        if let Some(p) = &t.pool {
            m.push_str(&format!("  pool = {}\n", p));
        }
        let mut ins: Vec<String> = t.deps.iter().map(|&d| tasks[d].out.clone()).collect();
        if t.via_phony && !ins.is_empty() {
            m.push_str(&format!("build alias_{}: phony {}\n", t.name, ins.join(" ")));
            ins = vec![format!("alias_{}", t.name)];
        }
        // dependencies in any ordering role
        let (mut ex, mut im, mut oo) = (vec![], vec![], vec![]);
        for i in ins {
            match rng.below(3) {
                0 => ex.push(i),
                1 => im.push(i),
                _ => oo.push(i),
            }
        }
        m.push_str(&format!("build {}: r_{} {}", t.out, t.name, ex.join(" ")));
        if !im.is_empty() {
            m.push_str(&format!(" | {}", im.join(" ")));
        }
        if !oo.is_empty() {
            m.push_str(&format!(" || {}", oo.join(" ")));
        }
        m.push('\n');
    }
    m
}

fn prepare(dir: &Path, tasks: &[GTask], manifest: &str) {
    clear_dir(dir);
    std::fs::create_dir_all(dir.join("started")).unwrap();
    std::fs::create_dir_all(dir.join("release")).unwrap();
    for t in tasks {
        let p = std::ffi::CString::new(dir.join("release").join(&t.name).to_string_lossy().as_bytes()).unwrap();
        unsafe { libc::mkfifo(p.as_ptr(), 0o600) };
    }
    std::fs::write(dir.join("build.ninja"), manifest).unwrap();
}

/// Number of commands a greedy scheduler has running once it has started all it may: per pool at most
/// `depth` of the ready-or-running steps, at most `j` in total.
fn expected_running(tasks: &[GTask], pools: &BTreeMap<String, usize>, j: usize, finished_ok: &BTreeSet<usize>, finished: &BTreeSet<usize>) -> usize {
    let mut per_pool: BTreeMap<Option<String>, usize> = BTreeMap::new();
    for (i, t) in tasks.iter().enumerate() {
        if finished.contains(&i) {
            continue;
        }
        if t.deps.iter().all(|d| finished_ok.contains(d)) {
            *per_pool.entry(t.pool.clone()).or_insert(0) += 1;
        }
    }
    let mut total = 0;
    for (p, n) in per_pool {
        let depth = p.as_ref().and_then(|p| pools.get(p)).copied().unwrap_or(0);
        total += if depth == 0 { n } else { n.min(depth) };
    }
    total.min(j)
}

fn gen_tasks(rng: &mut Rng, n: usize, pools: &BTreeMap<String, usize>, fail_p: usize) -> Vec<GTask> {
    let mut tasks: Vec<GTask> = Vec::new();
    for i in 0..n {
        let mut deps = Vec::new();
        if i > 0 && rng.chance(1, 2) {
            for _ in 0..rng.range(1, 2) {
                let d = rng.below(i);
                if !deps.contains(&d) {
                    deps.push(d);
                }
            }
        }
        let pool = if !pools.is_empty() && rng.chance(1, 3) { Some(rng.pick(&pools.keys().cloned().collect::<Vec<_>>()).clone()) } else { None };
        let via_phony = rng.chance(1, 3);
        tasks.push(GTask { name: format!("t{}", i), out: format!("o{}", i), deps, via_phony, pool, fails: fail_p > 0 && rng.chance(1, fail_p), swallows: false });
    }
    tasks
}

/// C19 under a terminal: displayed counts against the true state at quiescent points.
pub fn c19_pty_case(ctx: &Ctx, env: &RealEnv, dir: &Path, case: u64, seed: u64, rep: &mut Report) {
    let mut rng = Rng::new(seed);
    // (the status area lists at most 8 running commands: go beyond that sometimes)
    let wide = rng.chance(1, 4);
    let n = if wide { rng.range(9, 14) } else { rng.range(2, if ctx.thorough() { 12 } else { 7 }) };
    let mut pools = BTreeMap::new();
    if rng.chance(1, 2) && !wide {
        pools.insert("p1".to_string(), rng.range(1, 2));
    }
    let mut tasks = gen_tasks(&mut rng, n, &pools, 6);
    if wide {
        for t in tasks.iter_mut() {
            if rng.chance(3, 4) {
                t.deps.clear();
            }
        }
    }
    let manifest = gated_manifest(&tasks, &pools, &mut rng, true);
    prepare(dir, &tasks, &manifest);
    let j = if wide { 16 } else { *rng.pick(&[1usize, 2, 3, 4, 16]) };
    let cols = *rng.pick(&[40u16, 80, 120, 200]);
    let args: Vec<String> = vec!["-j".into(), j.to_string(), "-k".into(), "1000".into()];
    let mut s = match Session::spawn(env, dir, &args, Some((cols, 30))) {
        Ok(s) => s,
        Err(e) => {
            rep.inconclusive.push(format!("case {}: {}", case, e));
            return;
        }
    };
    rep.evaluations += 1;
    rep.count("pty_gated_builds", 1);
    let idx: BTreeMap<String, usize> = tasks.iter().enumerate().map(|(i, t)| (t.name.clone(), i)).collect();
    let mut released: BTreeSet<usize> = BTreeSet::new();
    let mut finished_ok: BTreeSet<usize> = BTreeSet::new();
    let mut rounds = Vec::new();
    let mk = |s: &Session, rounds: &Vec<J>| {
        let text = strip_ansi(&s.shown);
        J::obj()
            .with("case", J::i(case))
            .with("j", J::i(j))
            .with("cols", J::i(cols))
            .with("manifest", J::s(&manifest))
            .with("rounds", J::Arr(rounds.clone()))
            .with("display_tail", J::s(text.chars().rev().take(1200).collect::<String>().chars().rev().collect::<String>()))
    };
    let mut frames_checked = 0usize;
    loop {
        // quiescence at the file level: everything released has finished, and as many commands
        // have announced themselves as a scheduler honouring -j and the pools runs at this point
        let want_running = expected_running(&tasks, &pools, j, &finished_ok, &released);
        let t0 = Instant::now();
        let mut quiet = false;
        let mut st: BTreeSet<usize> = BTreeSet::new();
        while t0.elapsed() < Duration::from_secs(20) {
            s.pump();
            st = s.started().iter().filter_map(|n| idx.get(n).copied()).collect();
            let running_now = st.difference(&released).count();
            if running_now == want_running {
                quiet = true;
                break;
            }
            if s.exited() {
                break;
            }
            std::thread::sleep(Duration::from_millis(2));
        }
        if !quiet {
            if s.exited() && want_running == 0 {
                break;
            }
            // scheduling is not this check's subject (C04/C06 are); without a quiescent point there is no verdict
            rep.inconclusive.push(format!("case {}: no quiescent point: {} commands announced and unreleased, scheduler model says {}", case, st.difference(&released).count(), want_running));
            s.kill();
            return;
        }
        if want_running == 0 {
            break;
        }
        let running: Vec<usize> = st.difference(&released).copied().collect();
        // the display must converge to the truth while nothing can change
        // in flight (ready, queued or running: every unfinished step whose producers are done) is the
        // second number of `R/M running`; what is neither finished nor in flight is drawn as waiting
        let in_flight = (0..n).filter(|i| !released.contains(i) && tasks[*i].deps.iter().all(|d| finished_ok.contains(d))).count();
        let truth = (released.len(), n, running.len());
        let t1 = Instant::now();
        let mut last: Option<Frame> = None;
        let mut ok = false;
        while t1.elapsed() < Duration::from_secs(15) {
            s.pump();
            let text = strip_ansi(&s.shown);
            last = frames(&text).last().cloned();
            if let Some(f) = &last {
                if (f.done, f.total, f.running) == truth && f.pending == in_flight {
                    ok = true;
                    break;
                }
            }
            if s.exited() {
                break;
            }
            std::thread::sleep(Duration::from_millis(10));
        }
        rounds.push(J::obj().with("released_so_far", J::i(released.len())).with("executing", J::strs(running.iter().map(|&i| tasks[i].name.clone()))).with("frame", J::s(format!("{:?}", last))));
        match (&last, ok) {
            (_, true) => {
                frames_checked += 1;
                rep.count("quiescent_frames_checked", 1);
            }
            (None, _) => {
                rep.inconclusive.push(format!("case {}: no progress line seen within 15 s", case));
                s.kill();
                return;
            }
            (Some(f), false) => {
                let what = if f.running != truth.2 {
                    "running-count-differs"
                } else if (f.done, f.total) == (truth.0, truth.1) && f.pending != in_flight {
                    "in-flight-count-differs"
                } else if f.total != truth.1 {
                    "total-differs"
                } else {
                    "finished-count-differs"
                };
                rep.violation(
                    &format!("display:{}", what),
                    &format!("with {} of {} commands finished, {} executing and {} in flight (state frozen for 15 s) the display says {}/{} done, {}/{} running", truth.0, truth.1, truth.2, in_flight, f.done, f.total, f.running, f.pending),
                    mk(&s, &rounds),
                );
                s.kill();
                return;
            }
        }
        // release a non-empty subset of the executing commands
        let mut rel: Vec<usize> = running.iter().copied().filter(|_| rng.chance(1, 2)).collect();
        if rel.is_empty() {
            rel.push(*rng.pick(&running));
        }
        for &i in &rel {
            if !s.release(&tasks[i].name) {
                rep.inconclusive.push(format!("case {}: could not release {}", case, tasks[i].name));
                s.kill();
                return;
            }
            released.insert(i);
            if !tasks[i].fails {
                finished_ok.insert(i);
            }
        }
        // their effects are in place before the next quiescence test looks at the announcements
        let t2 = Instant::now();
        while t2.elapsed() < Duration::from_secs(10) {
            if rel.iter().all(|&i| tasks[i].fails || dir.join(&tasks[i].out).exists()) {
                break;
            }
            std::thread::sleep(Duration::from_millis(1));
        }
    }
    let end = s.wait_exit(Duration::from_secs(30));
    let text = strip_ansi(&s.shown);
    let Some((exit, sig)) = end else {
        rep.inconclusive.push(format!("case {}: n2 did not exit within 30 s of the last release", case));
        return;
    };
    // over the whole run: totals constant, finished never decreases, bar width nominal
    let fr = frames(&text);
    rep.count("progress_lines_seen", fr.len() as u64);
    let mut prev_done = 0;
    for f in &fr {
        if f.total == 0 && f.done == 0 && f.running == 0 {
            // before the build phase's first update (and during the phase that checks the manifest file)
            continue;
        }
        if f.total != n {
            rep.violation("display:total-differs", &format!("progress line says {} steps in total, {} commands are wanted", f.total, n), mk(&s, &rounds));
            break;
        }
        if f.done < prev_done {
            rep.violation("display:finished-count-decreases", &format!("finished count went from {} to {}", prev_done, f.done), mk(&s, &rounds));
            break;
        }
        if f.running > j || f.done + f.running > n {
            rep.violation("display:running-count-differs", &format!("progress line {:?} with -j {} and {} steps", f, j, n), mk(&s, &rounds));
            break;
        }
        prev_done = f.done;
    }
    let nfail = released.iter().filter(|&&i| tasks[i].fails).count();
    let nok = finished_ok.len();
    let want_exit = if nfail == 0 && nok == n { 0 } else { 1 };
    if sig.is_some() || exit != Some(want_exit) {
        rep.violation("display:exit-differs", &format!("{} commands succeeded, {} failed, n2 ended {:?}/{:?}", nok, nfail, exit, sig), mk(&s, &rounds));
    }
    let last_line = text.lines().filter(|l| l.starts_with("n2: ")).last().unwrap_or("").to_string();
    if want_exit == 0 {
        if !summary_ok(&last_line, nok) {
            rep.violation("display:summary-differs", &format!("summary {:?}, {} commands completed successfully", last_line, nok), mk(&s, &rounds));
        }
    }
    if frames_checked >= 2 {
        rep.nontrivial.insert(fnv(manifest.as_bytes()) ^ (j as u64) << 8);
        rep.sample(|| mk(&s, &rounds));
    }
}

/// C05: SIGINT while commands that swallow it are running.  Whatever the commands do with the signal,
/// exit status 0 is only acceptable when every step is up to date.
pub fn c05_sigint_case(ctx: &Ctx, env: &RealEnv, dir: &Path, case: u64, seed: u64, rep: &mut Report) {
    let _ = ctx;
    let mut rng = Rng::new(seed);
    let n = rng.range(1, 6);
    let pools = BTreeMap::new();
    let mut tasks = gen_tasks(&mut rng, n, &pools, 0);
    let all_swallow = rng.chance(1, 2);
    for t in tasks.iter_mut() {
        t.swallows = all_swallow || rng.chance(1, 2);
    }
    let manifest = gated_manifest(&tasks, &pools, &mut rng, false);
    prepare(dir, &tasks, &manifest);
    let j = *rng.pick(&[1usize, 2, 4, 16]);
    let args: Vec<String> = vec!["-j".into(), j.to_string(), "-k".into(), rng.pick(&["1", "1000"]).to_string()];
    let mut s = match Session::spawn(env, dir, &args, None) {
        Ok(s) => s,
        Err(e) => {
            rep.inconclusive.push(format!("case {}: {}", case, e));
            return;
        }
    };
    rep.evaluations += 1;
    rep.count("sigint_swallow_cases", 1);
    let idx: BTreeMap<String, usize> = tasks.iter().enumerate().map(|(i, t)| (t.name.clone(), i)).collect();
    let mut released: BTreeSet<usize> = BTreeSet::new();
    // finish `keep` commands normally first; the signal arrives with the rest of the build still to do
    // (often with exactly the last command executing)
    let keep = if rng.chance(1, 2) { n - 1 } else { rng.below(n) };
    let mut log = Vec::new();
    loop {
        let want_running = expected_running(&tasks, &pools, j, &released, &released);
        let t0 = Instant::now();
        let mut st: BTreeSet<usize> = BTreeSet::new();
        let mut quiet = false;
        while t0.elapsed() < Duration::from_secs(20) {
            s.pump();
            st = s.started().iter().filter_map(|n| idx.get(n).copied()).collect();
            if st.difference(&released).count() == want_running {
                quiet = true;
                break;
            }
            if s.exited() {
                break;
            }
            std::thread::sleep(Duration::from_millis(2));
        }
        if !quiet || want_running == 0 {
            rep.inconclusive.push(format!("case {}: no quiescent point before the signal", case));
            s.kill();
            return;
        }
        let running: Vec<usize> = st.difference(&released).copied().collect();
        if released.len() >= keep {
            log.push(format!("SIGINT with {:?} executing", running.iter().map(|&i| tasks[i].name.clone()).collect::<Vec<_>>()));
            // commands have announced themselves; give their shells a moment to reach the blocking read
            std::thread::sleep(Duration::from_millis(rng.below(30) as u64));
            s.signal_group(libc::SIGINT);
            break;
        }
        let i = *rng.pick(&running);
        if !s.release(&tasks[i].name) {
            rep.inconclusive.push(format!("case {}: could not release {}", case, tasks[i].name));
            s.kill();
            return;
        }
        released.insert(i);
        log.push(format!("released {}", tasks[i].name));
        let t2 = Instant::now();
        while t2.elapsed() < Duration::from_secs(10) && !dir.join(&tasks[i].out).exists() {
            std::thread::sleep(Duration::from_millis(1));
        }
    }
    // After the signal every command that was executing has ended one way or another.  n2 may go on
    // with the rest of the build (commands that exit 0 are successes to it): commands it starts from
    // now on are let through at once, so the invocation ends by itself.
    let at_signal: BTreeSet<usize> = s.started().iter().filter_map(|n| idx.get(n).copied()).collect();
    let t3 = Instant::now();
    let mut late: BTreeSet<usize> = BTreeSet::new();
    while !s.exited() && t3.elapsed() < Duration::from_secs(30) {
        s.pump();
        let st: BTreeSet<usize> = s.started().iter().filter_map(|n| idx.get(n).copied()).collect();
        for &i in st.difference(&at_signal) {
            if late.insert(i) {
                s.release(&tasks[i].name);
                log.push(format!("started after the signal, released: {}", tasks[i].name));
            }
        }
        std::thread::sleep(Duration::from_millis(2));
    }
    let end = s.wait_exit(Duration::from_secs(5));
    let text = String::from_utf8_lossy(&s.shown).into_owned();
    let mk = || J::obj().with("case", J::i(case)).with("j", J::i(j)).with("manifest", J::s(&manifest)).with("steps", J::strs(log.iter().cloned())).with("output", J::s(text.chars().take(1500).collect::<String>()));
    let Some((exit, sig)) = end else {
        rep.violation("sigint-does-not-stop-build", "n2 still running 30 s after SIGINT although every command has ended", mk());
        return;
    };
    let missing: Vec<String> = tasks.iter().filter(|t| !dir.join(&t.out).exists()).map(|t| t.out.clone()).collect();
    if sig.is_none() && exit == Some(0) && !missing.is_empty() {
        rep.violation("exit-zero-not-up-to-date", &format!("interrupted build exited 0 although {:?} were never produced", missing), mk());
    }
    if !missing.is_empty() {
        rep.nontrivial.insert(fnv(manifest.as_bytes()) ^ (keep as u64) << 4 ^ j as u64);
        rep.count("interrupted_with_work_left", 1);
        rep.sample(mk);
    }
}

// ------------------------------------------------------------------------
// what the user sees on the terminal

/// Minimal emulation of the sequences n2's display uses (CR, LF, `ESC[nA` cursor up, `ESC[J` clear to
/// end of screen; other CSI sequences are ignored): returns the rows left on the screen and in the
/// scrollback once everything has been drawn.  Rows are logical lines (no wrapping is modelled; n2 cuts
/// the lines of its redrawn area to the terminal width, and only that area is ever moved over).
pub fn screen_rows(bytes: &[u8]) -> Vec<String> {
    let mut rows: Vec<Vec<u8>> = vec![Vec::new()];
    let (mut r, mut c) = (0usize, 0usize);
    let mut i = 0;
    while i < bytes.len() {
        let b = bytes[i];
        if b == 0x1b && i + 1 < bytes.len() && bytes[i + 1] == b'[' {
            let mut j = i + 2;
            let mut num = 0usize;
            let mut has = false;
            while j < bytes.len() && !(0x40..=0x7e).contains(&bytes[j]) {
                if bytes[j].is_ascii_digit() {
                    num = num * 10 + (bytes[j] - b'0') as usize;
                    has = true;
                }
                j += 1;
            }
            if j < bytes.len() {
                match bytes[j] {
                    b'A' => r = r.saturating_sub(if has { num } else { 1 }),
                    b'J' => {
                        rows.truncate(r + 1);
                        rows[r].truncate(c);
                    }
                    _ => {}
                }
            }
            i = j + 1;
            continue;
        }
        match b {
            b'\r' => c = 0,
            b'\n' => {
                r += 1;
                c = 0;
                if r >= rows.len() {
                    rows.push(Vec::new());
                }
            }
            _ => {
                let row = &mut rows[r];
                if c < row.len() {
                    row[c] = b;
                } else {
                    while row.len() < c {
                        row.push(b' ');
                    }
                    row.push(b);
                }
                c += 1;
            }
        }
        i += 1;
    }
    rows.iter().map(|r| String::from_utf8_lossy(r).into_owned()).collect()
}

/// C16 on a terminal: what commands print reaches the screen once, contiguously, under their header.
pub fn c16_pty_case(ctx: &Ctx, env: &RealEnv, dir: &Path, case: u64, seed: u64, rep: &mut Report) {
    let mut rng = Rng::new(seed);
    clear_dir(dir);
    let n = rng.range(2, if ctx.thorough() { 14 } else { 8 });
    struct T {
        msg: String,
        lines: Vec<String>,
        code: i32,
        term: bool,
        hide_success: bool,
    }
    let mut tasks: Vec<T> = Vec::new();
    let mut manifest = String::new();
    for i in 0..n {
        let nl = *rng.pick(&[0usize, 0, 1, 2, 4]);
        let tag = rng.next() % 100000;
        let lines: Vec<String> = (0..nl).map(|k| format!("T{}-{}-{:05}{}", i, k, tag, if rng.chance(1, 4) { " é ビルド" } else { "" })).collect();
        let code = if rng.chance(1, 3) { *rng.pick(&[1, 2, 3, 127, 128, 255]) } else { 0 };
        let term = code == 0 && rng.chance(1, 8);
        let hide_success = rng.chance(1, 3);
        // (every command text is unique: it is what identifies the step on the screen)
        let mut cmd = format!(": step{}-{:05}; ", i, tag);
        for (k, l) in lines.iter().enumerate() {
            let last = k + 1 == lines.len();
            let fmt = if last && rng.chance(1, 3) { "%s" } else { "%s\\n" };
            cmd.push_str(&format!("printf '{}' '{}'{}; ", fmt, l, if rng.chance(1, 2) { " >&2" } else { "" }));
        }
        if rng.chance(1, 2) {
            cmd.push_str(&format!("sleep 0.{:02}; ", rng.below(20)));
        }
        if term {
            cmd.push_str("kill -TERM $$$$");
        } else {
            cmd.push_str(&format!(": > o{}; exit {}", i, code));
        }
        let desc = if rng.chance(1, 2) { Some(format!("DESC {} step", i)) } else { None };
        manifest.push_str(&format!("rule r{}\n  command = {}\n", i, cmd));
        if let Some(d) = &desc {
            manifest.push_str(&format!("  description = {}\n", d));
        }
        if hide_success {
            manifest.push_str("  hide_success = 1\n");
        }
        manifest.push_str(&format!("build o{}: r{}\n", i, i));
        let msg = desc.unwrap_or_else(|| cmd.replace("$$$$", "$$"));
        tasks.push(T { msg, lines, code, term, hide_success });
    }
    std::fs::write(dir.join("build.ninja"), &manifest).unwrap();
    let j = *rng.pick(&[1usize, 2, 8]);
    let cols = *rng.pick(&[200u16, 250, 300]);
    let args: Vec<String> = vec!["-j".into(), j.to_string(), "-k".into(), "1000".into()];
    let mut s = match Session::spawn(env, dir, &args, Some((cols, 50))) {
        Ok(s) => s,
        Err(e) => {
            rep.inconclusive.push(format!("case {}: {}", case, e));
            return;
        }
    };
    rep.evaluations += 1;
    rep.count("pty_output_builds", 1);
    let end = s.wait_exit(Duration::from_secs(60));
    let rows = screen_rows(&s.shown);
    let mk = || {
        J::obj()
            .with("case", J::i(case))
            .with("j", J::i(j))
            .with("manifest", J::s(&manifest))
            .with("screen", J::strs(rows.iter().rev().take(60).rev().cloned()))
    };
    let Some((exit, sig)) = end else {
        rep.inconclusive.push(format!("case {}: n2 did not finish within 60 s", case));
        return;
    };
    let any_fail = tasks.iter().any(|t| t.code != 0 || t.term);
    if sig.is_some() || exit != Some(if any_fail { 1 } else { 0 }) {
        rep.violation("pty:exit-status", &format!("n2 ended {:?}/{:?}; commands failing: {}", exit, sig, any_fail), mk());
        return;
    }
    for (i, t) in tasks.iter().enumerate() {
        let failed = t.code != 0 || t.term;
        let shown = failed || (!t.hide_success && !t.lines.is_empty());
        if !shown {
            continue;
        }
        // the row that introduces the step's output: names the step (description or command), and says
        // so when it failed; the exact layout of that row is n2's business
        let header = if failed { format!("failed: {}", t.msg) } else { t.msg.clone() };
        let hpos: Vec<usize> = rows.iter().enumerate().filter(|(_, r)| r.contains(t.msg.as_str()) && (!failed || r.contains("fail"))).map(|(k, _)| k).collect();
        if hpos.len() != 1 {
            let what = if failed { "pty:failure-not-reported" } else { "pty:header-count" };
            rep.violation(what, &format!("step {}: header {:?} is on the screen {} times", i, header, hpos.len()), mk());
            return;
        }
        let at = hpos[0];
        for (k, l) in t.lines.iter().enumerate() {
            // (n2 appends a `signal N` note to what a killed command printed; it lands on the last line
            // when that has no newline)
            let noted = t.term && k + 1 == t.lines.len();
            let is_l = |r: &String| if noted { r.starts_with(l.as_str()) } else { r == l };
            let count = rows.iter().filter(|r| is_l(r)).count();
            if count != 1 {
                rep.violation("pty:output-line-count", &format!("step {}: output line {:?} is on the screen {} times", i, l, count), mk());
                return;
            }
            if !rows.get(at + 1 + k).map(|r| is_l(r)).unwrap_or(false) {
                rep.violation("pty:output-not-contiguous", &format!("step {}: line {} of its output is not at row {} under its header (row {})", i, k, at + 1 + k, at), mk());
                return;
            }
        }
        rep.count("pty_task_outputs_checked", 1);
    }
    if tasks.iter().any(|t| (t.code != 0 || t.term) && t.hide_success) {
        rep.nontrivial.insert(fnv(manifest.as_bytes()));
    }
    rep.nontrivial.insert(fnv(manifest.as_bytes()) ^ 1);
    rep.sample(mk);
}

/// C16 (last clause): a command that dies of SIGINT -- whoever sent it, n2 itself need not have seen one --
/// is an interruption that stops the build: nothing is started afterwards, and the exit status is not 0.
/// Gated: the harness decides when the command signals itself, with other steps still queued.
pub fn c16_interrupt_case(ctx: &Ctx, env: &RealEnv, dir: &Path, case: u64, seed: u64, rep: &mut Report) {
    let _ = ctx;
    let mut rng = Rng::new(seed);
    let n = rng.range(3, 8);
    let j = rng.range(1, 3).min(n - 1);
    let pools = BTreeMap::new();
    let mut tasks: Vec<GTask> = (0..n).map(|i| GTask { name: format!("t{}", i), out: format!("o{}", i), deps: vec![], via_phony: false, pool: None, fails: false, swallows: false }).collect();
    let manifest_plain = gated_manifest(&tasks, &pools, &mut rng, false);
    // every command may be the one that is told to interrupt itself: the release word decides
    let manifest = manifest_plain.replace("read x < release/", "read x < release/").lines().map(|l| {
        if l.trim_start().starts_with("command = ") {
            // `read x` gets "go" or "int": on "int" the shell sends itself SIGINT
            l.replace("&& : > ", "&& { [ \"$$x\" = int ] && kill -INT $$$$; : > ").to_string() + "; }"
        } else {
            l.to_string()
        }
    }).collect::<Vec<_>>().join("\n") + "\n";
    for t in tasks.iter_mut() {
        t.swallows = false;
    }
    prepare(dir, &tasks, &manifest);
    let args: Vec<String> = vec!["-j".into(), j.to_string(), "-k".into(), "1000".into()];
    let mut s = match Session::spawn(env, dir, &args, None) {
        Ok(s) => s,
        Err(e) => {
            rep.inconclusive.push(format!("case {}: {}", case, e));
            return;
        }
    };
    rep.evaluations += 1;
    rep.count("self_interrupt_cases", 1);
    let idx: BTreeMap<String, usize> = tasks.iter().enumerate().map(|(i, t)| (t.name.clone(), i)).collect();
    // wait for j commands to be executing
    let t0 = Instant::now();
    let mut st: BTreeSet<usize> = BTreeSet::new();
    while t0.elapsed() < Duration::from_secs(20) {
        s.pump();
        st = s.started().iter().filter_map(|n| idx.get(n).copied()).collect();
        if st.len() >= j || s.exited() {
            break;
        }
        std::thread::sleep(Duration::from_millis(2));
    }
    if st.len() != j {
        rep.inconclusive.push(format!("case {}: {} commands executing, expected {}", case, st.len(), j));
        s.kill();
        return;
    }
    let victim = *rng.pick(&st.iter().copied().collect::<Vec<_>>());
    // "int" instead of "go"
    {
        let p = std::ffi::CString::new(dir.join("release").join(&tasks[victim].name).to_string_lossy().as_bytes()).unwrap();
        let t1 = Instant::now();
        loop {
            let fd = unsafe { libc::open(p.as_ptr(), libc::O_WRONLY | libc::O_NONBLOCK) };
            if fd >= 0 {
                unsafe {
                    libc::write(fd, b"int\n".as_ptr() as *const libc::c_void, 4);
                    libc::close(fd);
                }
                break;
            }
            if t1.elapsed() > Duration::from_secs(10) {
                rep.inconclusive.push(format!("case {}: could not reach {}", case, tasks[victim].name));
                s.kill();
                return;
            }
            std::thread::sleep(Duration::from_millis(1));
        }
    }
    // from now on nothing new may start; the other executing commands are let go after a while so that
    // n2 can end whichever way it handles them
    let at_signal = st.clone();
    let t2 = Instant::now();
    let mut late: BTreeSet<usize> = BTreeSet::new();
    let mut let_go = false;
    while !s.exited() && t2.elapsed() < Duration::from_secs(30) {
        s.pump();
        let now: BTreeSet<usize> = s.started().iter().filter_map(|n| idx.get(n).copied()).collect();
        for &i in now.difference(&at_signal) {
            if late.insert(i) {
                // (let it through so that the invocation can end)
                s.release(&tasks[i].name);
            }
        }
        if !let_go && t2.elapsed() > Duration::from_millis(1500) {
            let_go = true;
            for &i in at_signal.iter().filter(|&&i| i != victim) {
                s.release(&tasks[i].name);
            }
        }
        std::thread::sleep(Duration::from_millis(2));
    }
    let end = s.wait_exit(Duration::from_secs(5));
    let text = String::from_utf8_lossy(&s.shown).into_owned();
    let mk = || J::obj().with("case", J::i(case)).with("j", J::i(j)).with("manifest", J::s(&manifest)).with("interrupted", J::s(&tasks[victim].name)).with("output", J::s(text.chars().take(1500).collect::<String>()));
    let Some((exit, sig)) = end else {
        rep.inconclusive.push(format!("case {}: n2 did not end within 35 s of the interruption", case));
        return;
    };
    if !late.is_empty() {
        rep.violation(
            "start-after-interrupted-command",
            &format!("{} died of SIGINT with {} steps not yet started; afterwards n2 started {:?}", tasks[victim].name, n - j, late.iter().map(|&i| tasks[i].name.clone()).collect::<Vec<_>>()),
            mk(),
        );
    }
    if sig.is_none() && exit == Some(0) {
        rep.violation("exit-zero-after-interrupted-command", "a command died of SIGINT and n2 exited 0", mk());
    }
    rep.nontrivial.insert(fnv(manifest.as_bytes()) ^ (victim as u64) << 3 ^ j as u64);
    rep.sample(mk);
}

/// C04 at process level: a command that has printed a lot (more than any plausible buffer cap) and then
/// keeps running still occupies its -j / pool slot until its process has ended.
pub fn c04_bigout_case(ctx: &Ctx, env: &RealEnv, dir: &Path, case: u64, seed: u64, rep: &mut Report) {
    let _ = ctx;
    let mut rng = Rng::new(seed);
    let n = rng.range(2, 5);
    let use_pool = rng.chance(1, 2);
    let j = if use_pool { 4 } else { rng.range(1, 2) };
    let mut pools = BTreeMap::new();
    if use_pool {
        pools.insert("one".to_string(), 1usize);
    }
    let tasks: Vec<GTask> = (0..n).map(|i| GTask { name: format!("t{}", i), out: format!("o{}", i), deps: vec![], via_phony: false, pool: if use_pool { Some("one".into()) } else { None }, fails: false, swallows: false }).collect();
    let mbytes = *rng.pick(&[1usize, 17, 20, 33]);
    let manifest = gated_manifest(&tasks, &pools, &mut rng, false)
        // every command is chatty before it blocks: whichever n2 starts first
        // (lines of digits, about 7 bytes each: one process, no pipeline)
        .replace("; read x < release/", &format!("; seq 1 {}; read x < release/", mbytes * 1_000_000 / 7));
    prepare(dir, &tasks, &manifest);
    let limit = if use_pool { 1 } else { j };
    let args: Vec<String> = vec!["-j".into(), j.to_string(), "-k".into(), "1000".into()];
    let mut s = match Session::spawn(env, dir, &args, None) {
        Ok(s) => s,
        Err(e) => {
            rep.inconclusive.push(format!("case {}: {}", case, e));
            return;
        }
    };
    rep.evaluations += 1;
    rep.count("chatty_command_cases", 1);
    let idx: BTreeMap<String, usize> = tasks.iter().enumerate().map(|(i, t)| (t.name.clone(), i)).collect();
    let mut released: BTreeSet<usize> = BTreeSet::new();
    let mut worst = 0usize;
    let mut log = Vec::new();
    // rounds: wait for `limit` commands executing, hold them for a while (they have long finished
    // printing), verify that nothing beyond the limit was started, release one
    loop {
        let t0 = Instant::now();
        let mut st: BTreeSet<usize> = BTreeSet::new();
        let remaining = n - released.len();
        let want = limit.min(remaining);
        while t0.elapsed() < Duration::from_secs(30) {
            s.pump();
            // (the session buffer only needs the tail)
            if s.shown.len() > 4_000_000 {
                let cut = s.shown.len() - 100_000;
                s.shown.drain(..cut);
            }
            st = s.started().iter().filter_map(|n| idx.get(n).copied()).collect();
            if st.difference(&released).count() >= want || s.exited() {
                break;
            }
            std::thread::sleep(Duration::from_millis(2));
        }
        if want == 0 {
            break;
        }
        if st.difference(&released).count() < want {
            let tail = String::from_utf8_lossy(&s.shown).chars().rev().take(300).collect::<String>().chars().rev().collect::<String>();
            rep.inconclusive.push(format!("case {}: fewer commands executing than the limit allows; n2 says {:?}", case, tail));
            s.kill();
            return;
        }
        // hold: long enough for all output to be through the pipe and for a freed slot to be reused
        let t1 = Instant::now();
        while t1.elapsed() < Duration::from_millis(1200) {
            s.pump();
            if s.shown.len() > 4_000_000 {
                let cut = s.shown.len() - 100_000;
                s.shown.drain(..cut);
            }
            std::thread::sleep(Duration::from_millis(5));
        }
        st = s.started().iter().filter_map(|n| idx.get(n).copied()).collect();
        let executing: Vec<usize> = st.difference(&released).copied().collect();
        worst = worst.max(executing.len());
        log.push(format!("executing {:?}", executing.iter().map(|&i| tasks[i].name.clone()).collect::<Vec<_>>()));
        if executing.len() > limit {
            let text = String::from_utf8_lossy(&s.shown).chars().rev().take(600).collect::<String>().chars().rev().collect::<String>();
            rep.violation(
                "limit-exceeded-by-live-processes",
                &format!("{} commands are executing (announced, not released, blocked on their FIFO) with {}", executing.len(), if use_pool { "a pool of depth 1".to_string() } else { format!("-j {}", j) }),
                J::obj().with("case", J::i(case)).with("manifest", J::s(&manifest)).with("steps", J::strs(log.iter().cloned())).with("output_tail", J::s(text)),
            );
            s.kill();
            return;
        }
        let i = executing[0];
        s.release(&tasks[i].name);
        released.insert(i);
        let t2 = Instant::now();
        while t2.elapsed() < Duration::from_secs(10) && !dir.join(&tasks[i].out).exists() {
            s.pump();
            std::thread::sleep(Duration::from_millis(2));
        }
    }
    let end = s.wait_exit(Duration::from_secs(30));
    if end.is_none() {
        rep.inconclusive.push(format!("case {}: n2 did not end after the last release", case));
        return;
    }
    rep.max("max_mbytes_printed_by_one_command", mbytes as u64);
    rep.nontrivial.insert(fnv(manifest.as_bytes()) ^ mbytes as u64);
}

/// C05 at process level: a command that cannot even be started (its text is longer than the kernel takes
/// as one argument) is a failed command: exit status non-zero, nothing recorded for it, the others unharmed.
pub fn c05_spawn_failure_case(ctx: &Ctx, env: &RealEnv, dir: &Path, case: u64, seed: u64, rep: &mut Report) {
    let _ = ctx;
    let mut rng = Rng::new(seed);
    let n = rng.range(1, 4);
    let pools = BTreeMap::new();
    let tasks = gen_tasks(&mut rng, n, &pools, 0);
    let mut manifest = gated_manifest(&tasks, &pools, &mut rng, false);
    let big = 131_072 + rng.below(4096);
    manifest.push_str(&format!("rule huge\n  command = : {}; : > ohuge\nbuild ohuge: huge\n", "x".repeat(big)));
    prepare(dir, &tasks, &manifest);
    let j = rng.range(2, 4);
    let args: Vec<String> = vec!["-j".into(), j.to_string(), "-k".into(), "1000".into()];
    let mut exits = Vec::new();
    for round in 0..2 {
        // (started/ is kept between the rounds; outputs decide what the second round still runs)
        let _ = std::fs::remove_dir_all(dir.join("started"));
        std::fs::create_dir_all(dir.join("started")).unwrap();
        let mut s = match Session::spawn(env, dir, &args, None) {
            Ok(s) => s,
            Err(e) => {
                rep.inconclusive.push(format!("case {}: {}", case, e));
                return;
            }
        };
        rep.evaluations += 1;
        let idx: BTreeMap<String, usize> = tasks.iter().enumerate().map(|(i, t)| (t.name.clone(), i)).collect();
        let mut released: BTreeSet<usize> = BTreeSet::new();
        let t0 = Instant::now();
        // let every command through a little after it announces itself (so that some are executing
        // while the huge one is attempted)
        while !s.exited() && t0.elapsed() < Duration::from_secs(40) {
            s.pump();
            let st: BTreeSet<usize> = s.started().iter().filter_map(|n| idx.get(n).copied()).collect();
            for &i in st.difference(&released.clone()) {
                std::thread::sleep(Duration::from_millis(rng.below(40) as u64));
                s.release(&tasks[i].name);
                released.insert(i);
            }
            std::thread::sleep(Duration::from_millis(2));
        }
        let end = s.wait_exit(Duration::from_secs(5));
        let text = String::from_utf8_lossy(&s.shown).chars().filter(|c| *c != 'x').take(1500).collect::<String>();
        let mk = || J::obj().with("case", J::i(case)).with("round", J::i(round)).with("j", J::i(j)).with("gated_steps", J::i(n)).with("command_bytes", J::i(big)).with("output_without_x", J::s(&text));
        let Some((exit, sig)) = end else {
            rep.violation("spawn-failure-hangs", "n2 still running 45 s after every command was let through", mk());
            return;
        };
        exits.push((exit, sig));
        if dir.join("ohuge").exists() {
            rep.inconclusive.push(format!("case {}: the kernel accepted a {}-byte argument", case, big));
            return;
        }
        if sig.is_some() {
            rep.violation("spawn-failure-kills-n2", &format!("n2 died of signal {:?}", sig), mk());
            return;
        }
        if exit == Some(0) {
            rep.violation("exit-zero-not-up-to-date", "a command could not be started (its output does not exist) and n2 exited 0", mk());
            return;
        }
        let missing: Vec<String> = tasks.iter().filter(|t| !dir.join(&t.out).exists()).map(|t| t.out.clone()).collect();
        if !missing.is_empty() {
            rep.violation("unblocked-step-not-run", &format!("steps independent of the unstartable command were not brought up to date: {:?}", missing), mk());
            return;
        }
    }
    rep.count("spawn_failure_cases", 1);
    rep.nontrivial.insert(fnv(manifest.as_bytes()));
}
