//! Per-property workloads and verdict logic.
pub mod hist;
pub mod real_c16;
pub mod real_gated;
pub mod real_misc;
pub mod realp;
pub mod sched;

use crate::ap::{Project, Rel};
use crate::model::*;
use crate::report::Report;
use crate::rng::mix64;
use crate::sim::{Inv, World};
use crate::Ctx;

/// Deterministic per-case seed.
pub fn case_seed(ctx: &Ctx, case: u64) -> u64 {
    let p = crate::rng::fnv(ctx.prop.as_bytes());
    mix64(ctx.seed.wrapping_mul(0x9e3779b97f4a7c15) ^ p ^ mix64(case))
}

/// Iterate over this shard's cases until the budget is used.
pub fn case_loop(ctx: &Ctx, rep: &mut Report, mut f: impl FnMut(u64, u64, &mut Report)) {
    if let Some(c) = ctx.only_case {
        ctx.journal(c);
        f(c, case_seed(ctx, c), rep);
        rep.cases += 1;
        return;
    }
    let mut c = ctx.shard as u64;
    if let Some(fc) = ctx.from_case {
        while c < fc {
            c += ctx.nshards as u64;
        }
    }
    let mut n = 0;
    while !ctx.expired() && n < ctx.max_cases {
        ctx.journal(c);
        ctx.checkpoint(rep);
        f(c, case_seed(ctx, c), rep);
        rep.cases += 1;
        n += 1;
        c += ctx.nshards as u64;
    }
}

pub fn run_sim(ctx: &Ctx, rep: &mut Report) {
    match ctx.prop.as_str() {
        "C01" | "C04" | "C05" | "C06" | "C18" | "C19" => sched::run(ctx, rep),
        "C02" | "C03" | "C07" | "C08" | "C09" | "C17" | "C13" | "C15" => hist::run(ctx, rep),
        p => {
            rep.inconclusive.push(format!("no sim workload for {}", p));
        }
    }
}

/// Prediction for a whole invocation (both phases).
pub struct PredInv {
    pub p1: Prediction,
    /// phase 2 (project it applies to, prediction); None if the invocation ends in phase 1
    pub p2: Option<(Project, Prediction)>,
    pub reload: bool,
    pub two_phase: bool,
}

impl PredInv {
    /// Expected started step ids per epoch.
    pub fn expected_runs(&self, proj1: &Project) -> Vec<Vec<String>> {
        let ids = |p: &Project, pr: &Prediction| -> Vec<String> {
            let mut v: Vec<String> = pr.run.iter().map(|&i| p.steps[i].id.clone()).collect();
            v.sort();
            v
        };
        let mut out = Vec::new();
        if !self.two_phase {
            out.push(ids(proj1, &self.p1));
        } else if self.reload {
            out.push(ids(proj1, &self.p1));
            if let Some((p2, pr2)) = &self.p2 {
                out.push(ids(p2, pr2));
            }
        } else {
            let mut v = ids(proj1, &self.p1);
            if let Some((p2, pr2)) = &self.p2 {
                v.extend(ids(p2, pr2));
            }
            v.sort();
            v.dedup();
            out.push(v);
        }
        out
    }
    pub fn error(&self) -> Option<String> {
        self.p1.error.clone().or_else(|| self.p2.as_ref().and_then(|(_, p)| p.error.clone()))
    }
    pub fn any_failed(&self) -> bool {
        !self.p1.failed.is_empty() || self.p2.as_ref().map(|(_, p)| !p.failed.is_empty()).unwrap_or(false)
    }
}

pub fn predict_inv(world: &World, inv: &Inv) -> PredInv {
    let mut st = world.st.clone();
    // fresh ticks of the dry run must not collide with anything on disk
    // (logical ticks are small; real mtimes in ns are below 2^62)
    st.clock = st.clock.max(1u64 << 62) + 1_000_000_000;
    let proj = &world.proj;
    let rel = Rel::new(proj);
    let mf = crate::ap::canon_ref(&inv.build_file.clone().unwrap_or_else(|| proj.manifest.clone()));
    let targets_of = |p: &Project, generated: bool| -> Result<Vec<String>, String> {
        let mut pp = p.clone();
        pp.manifest = mf.clone();
        let r = Rel::new(p);
        // unknown names on the command line are an error
        let mut known: std::collections::BTreeSet<String> = p.sources.iter().cloned().collect();
        for s in &p.steps {
            for f in s.all_outs().chain(s.all_ins()) {
                known.insert(f.clone());
            }
            for f in &s.extra_reads {
                known.insert(crate::ap::canon_ref(f));
            }
        }
        known.insert(mf.clone());
        // names remembered in the log are accepted by n2 as (do-nothing) targets; see DESIGN.md O2
        if let Ok(bytes) = std::fs::read(world.db_path()) {
            for n in crate::dbfmt::path_names(&crate::dbfmt::parse_db(&bytes)) {
                known.insert(n);
            }
        }
        let _ = r;
        for t in &inv.targets {
            let c = crate::ap::canon_ref(t);
            if !known.contains(&c) && !inv.adopt {
                return Err(format!("unknown path requested: {:?}", t));
            }
        }
        Ok(pp
            .effective_targets(&inv.targets)
            .into_iter()
            .filter(|t| !(generated && *t == mf))
            .collect())
    };
    let generated = rel.producer.contains_key(&mf);
    if !generated {
        let t = match targets_of(proj, false) {
            Ok(t) => t,
            Err(e) => {
                let mut p = Prediction::default();
                p.error = Some(e);
                return PredInv { p1: p, p2: None, reload: false, two_phase: false };
            }
        };
        let p1 = predict_phase(proj, &rel, &mut st, &t, &inv.faults, inv.adopt, None);
        return PredInv { p1, p2: None, reload: false, two_phase: false };
    }
    let next_proj = world.next_gens.first().cloned();
    let nm_content = next_proj.as_ref().map(|np| crate::rng::fnv(np.render(&world.ropts)[0].1.as_bytes()));
    let p1 = predict_phase(proj, &rel, &mut st, &[mf.clone()], &inv.faults, inv.adopt, nm_content);
    if p1.error.is_some() || !p1.failed.is_empty() {
        return PredInv { p1, p2: None, reload: false, two_phase: true };
    }
    let ran = p1.run.len();
    let reload = ran > 0 && !inv.adopt;
    let gen_ran = p1.run.iter().any(|&i| proj.steps[i].effect == crate::ap::Effect::Generator);
    let proj2 = if reload && gen_ran && next_proj.is_some() { next_proj.unwrap() } else { proj.clone() };
    let rel2 = Rel::new(&proj2);
    let generated2 = rel2.producer.contains_key(&mf);
    let t = match targets_of(&proj2, generated2 || !reload) {
        Ok(t) => t,
        Err(e) => {
            let mut p = Prediction::default();
            p.error = Some(e);
            return PredInv { p1, p2: Some((proj2, p)), reload, two_phase: true };
        }
    };
    let p2 = predict_phase(&proj2, &rel2, &mut st, &t, &inv.faults, inv.adopt, None);
    PredInv { p1, p2: Some((proj2, p2)), reload, two_phase: true }
}
