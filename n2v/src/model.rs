//! Reference model (DESIGN.md section 4 / A7): model disk, completion records,
//! command effects, dirty rule, run-set prediction and clean-build contents.
use crate::ap::{canon_ref, Effect, Project, Rel, Step};
use crate::rng::{fnv, fnv_combine};
use std::collections::{BTreeMap, BTreeSet};

#[derive(Clone, Copy, Debug, PartialEq, Eq)]
pub struct FileSt {
    pub tick: u64,
    pub content: u64,
}

pub type Disk = BTreeMap<String, FileSt>;

#[derive(Clone, Debug, PartialEq)]
pub struct MSig {
    pub ins: Vec<(String, u64)>,
    pub deps: Vec<(String, u64)>,
    pub cmd: String,
    pub rsp: Option<(String, String)>,
    pub outs: Vec<(String, u64)>,
}

#[derive(Clone, Debug)]
pub struct MRecord {
    pub outs: Vec<String>,
    pub deps: Vec<String>,
    pub sig: MSig,
    /// n2's own hash value as it appeared in the log (opaque to the model).
    pub n2_hash: u64,
}

#[derive(Clone, Copy, Debug, PartialEq, Eq)]
pub enum FailMode {
    /// command fails having written nothing
    Nothing,
    /// command writes all outputs, then fails
    All,
    /// command writes the first output only, then fails
    Some,
    /// command is interrupted (SIGINT)
    Interrupt,
}

#[derive(Clone, Debug, Default)]
pub struct ModelState {
    pub disk: Disk,
    pub clock: u64,
    pub records: Vec<MRecord>,
    /// E1 only: the generator writes the top-level manifest only when its text changes (CMake style);
    /// a generation that differs only in an included file then leaves the manifest's timestamp alone
    pub gen_write_if_changed: bool,
}

impl ModelState {
    pub fn tick(&mut self) -> u64 {
        self.clock += 1;
        self.clock
    }
}

/// Discovered-dependency list as it is supposed to be remembered:
/// canonicalised, de-duplicated (first occurrence), minus declared dirtying inputs.
pub fn normalize_deps(step: &Step, reported: &[String]) -> Vec<String> {
    let mut v: Vec<String> = Vec::new();
    let dirtying: BTreeSet<&String> = step.dirtying().collect();
    let mut seen: BTreeSet<String> = BTreeSet::new();
    for r in reported {
        let c = canon_ref(r);
        if dirtying.contains(&c) || !seen.insert(c.clone()) {
            continue;
        }
        v.push(c);
    }
    v
}

/// Latest applicable record for step `si` of `proj` (DESIGN.md 4.1).
pub fn applicable_record<'a>(
    proj: &Project,
    rel: &Rel,
    records: &'a [MRecord],
    si: usize,
) -> Option<&'a MRecord> {
    let _ = proj;
    records.iter().rev().find(|r| {
        !r.outs.is_empty() && r.outs.iter().all(|o| rel.producer.get(o) == Some(&si))
    })
}

pub fn sig_now(proj: &Project, step: &Step, deps: &[String], disk: &Disk) -> Option<MSig> {
    let mut ins = Vec::new();
    for f in step.dirtying() {
        ins.push((f.clone(), disk.get(f)?.tick));
    }
    let mut d = Vec::new();
    for f in deps {
        d.push((f.clone(), disk.get(f)?.tick));
    }
    let mut outs = Vec::new();
    for f in step.all_outs() {
        outs.push((f.clone(), disk.get(f)?.tick));
    }
    Some(MSig {
        ins,
        deps: d,
        cmd: step.cmd(&proj.agent),
        rsp: step.rsp.clone(),
        outs,
    })
}

#[derive(Clone, Debug, PartialEq)]
pub enum DirtyWhy {
    Clean,
    NoRecord,
    Missing(String),
    SigDiffers,
}

pub fn dirty_reason(
    proj: &Project,
    rel: &Rel,
    records: &[MRecord],
    si: usize,
    disk: &Disk,
) -> DirtyWhy {
    let step = &proj.steps[si];
    for f in step.dirtying() {
        if !disk.contains_key(f) {
            return DirtyWhy::Missing(f.clone());
        }
    }
    let rec = applicable_record(proj, rel, records, si);
    if let Some(r) = rec {
        for f in &r.deps {
            if !disk.contains_key(f) {
                return DirtyWhy::Missing(f.clone());
            }
        }
    }
    for f in step.all_outs() {
        if !disk.contains_key(f) {
            return DirtyWhy::Missing(f.clone());
        }
    }
    let Some(r) = rec else {
        return DirtyWhy::NoRecord;
    };
    match sig_now(proj, step, &r.deps, disk) {
        Some(s) if s == r.sig => DirtyWhy::Clean,
        _ => DirtyWhy::SigDiffers,
    }
}

/// Content a command writes to `out`, given what it reads.
pub fn output_content(proj: &Project, step: &Step, out: &str, disk: &Disk) -> u64 {
    let mut h = fnv(step.cmd(&proj.agent).as_bytes());
    if let Some((p, c)) = &step.rsp {
        h = fnv_combine(h, fnv(p.as_bytes()));
        h = fnv_combine(h, fnv(c.as_bytes()));
    }
    let mut reads: Vec<String> = step.dirtying().cloned().collect();
    let mut seen: BTreeSet<String> = reads.iter().cloned().collect();
    for r in &step.extra_reads {
        let c = canon_ref(r);
        if seen.insert(c.clone()) {
            reads.push(c);
        }
    }
    for f in &reads {
        h = fnv_combine(h, fnv(f.as_bytes()));
        h = fnv_combine(h, disk.get(f).map(|s| s.content).unwrap_or(0xdead));
    }
    fnv_combine(h, fnv(out.as_bytes()))
}

/// A file change produced by an effect.
#[derive(Clone, Debug)]
pub struct Change {
    pub name: String,
    pub st: FileSt,
}

/// Apply the effect of running `step` (successfully, or failing in `fail` mode)
/// to the model state.  Returns the changes for materialisation.
pub fn apply_effect(
    proj: &Project,
    step: &Step,
    st: &mut ModelState,
    fail: Option<FailMode>,
    next_manifest_content: Option<u64>,
) -> Vec<Change> {
    let mut changes = Vec::new();
    let outs: Vec<String> = step.all_outs().cloned().collect();
    // outputs this command ever writes
    let writes = match &step.effect {
        Effect::NoOutput => 0,
        Effect::SomeOutputs(k) => (*k).min(outs.len()),
        _ => outs.len(),
    };
    let limit = match fail {
        Some(FailMode::Nothing) | Some(FailMode::Interrupt) => 0,
        Some(FailMode::Some) => 1.min(writes),
        Some(FailMode::All) | None => writes,
    };
    // contents are computed from the state before any write of this step
    let contents: Vec<u64> = outs
        .iter()
        .map(|o| {
            if step.effect == Effect::Generator && *o == proj.manifest {
                next_manifest_content.unwrap_or_else(|| output_content(proj, step, o, &st.disk))
            } else {
                output_content(proj, step, o, &st.disk)
            }
        })
        .collect();
    for (i, o) in outs.iter().enumerate() {
        if i >= limit {
            break;
        }
        let c = contents[i];
        if step.effect == Effect::WriteIfChanged || (step.effect == Effect::Generator && st.gen_write_if_changed && *o == proj.manifest && next_manifest_content.is_some()) {
            if let Some(old) = st.disk.get(o) {
                if old.content == c {
                    continue;
                }
            }
        }
        let t = st.tick();
        let fs = FileSt { tick: t, content: c };
        st.disk.insert(o.clone(), fs);
        changes.push(Change { name: o.clone(), st: fs });
    }
    if fail.is_none() {
        // a generator that keeps a cache file it also reports as a dependency rewrites it on every run
        // (by convention the file is called gencache.h)
        if step.effect == Effect::Generator {
            for f in step.extra_reads.iter().filter(|f| f.as_str() == "gencache.h") {
                if let Some(old) = st.disk.get(f).copied() {
                    let t = st.tick();
                    let fs = FileSt { tick: t, content: old.content };
                    st.disk.insert(f.clone(), fs);
                    changes.push(Change { name: f.clone(), st: fs });
                }
            }
        }
        if let Effect::TouchOwnInput(f) = &step.effect {
            if let Some(old) = st.disk.get(f).copied() {
                let t = st.tick();
                let fs = FileSt { tick: t, content: old.content };
                st.disk.insert(f.clone(), fs);
                changes.push(Change { name: f.clone(), st: fs });
            }
        }
    }
    changes
}

/// The record a successful completion of `step` is expected to leave, or None
/// when a file is missing afterwards (then nothing may be recorded).
pub fn expected_record(proj: &Project, step: &Step, reported: Option<&[String]>, disk: &Disk) -> Option<MRecord> {
    let deps = match reported {
        Some(r) => normalize_deps(step, r),
        None => Vec::new(),
    };
    let sig = sig_now(proj, step, &deps, disk)?;
    Some(MRecord {
        outs: step.all_outs().cloned().collect(),
        deps,
        sig,
        n2_hash: 0,
    })
}

#[derive(Clone, Debug, Default)]
pub struct Prediction {
    /// steps (indices into proj.steps) predicted to be started
    pub run: BTreeSet<usize>,
    /// steps predicted to fail (subset of run)
    pub failed: BTreeSet<usize>,
    /// steps never examined because an ordering ancestor failed
    pub blocked: BTreeSet<usize>,
    /// why each run step is dirty
    pub why: BTreeMap<usize, DirtyWhy>,
    /// Some(msg fragment) when the invocation must end with an error
    pub error: Option<String>,
    /// wanted closure
    pub wanted: BTreeSet<usize>,
    /// an interrupt is part of the plan
    pub interrupted: bool,
}

/// Topological order of `set` by ordering edges (Kahn).  Returns None on cycle.
pub fn topo(rel: &Rel, set: &BTreeSet<usize>) -> Option<Vec<usize>> {
    let mut indeg: BTreeMap<usize, usize> = BTreeMap::new();
    for &s in set {
        indeg.insert(s, rel.ord_pred[s].iter().filter(|p| set.contains(p)).count());
    }
    let mut out = Vec::new();
    let mut ready: Vec<usize> = indeg.iter().filter(|(_, &d)| d == 0).map(|(&s, _)| s).collect();
    while let Some(s) = ready.pop() {
        out.push(s);
        for &t in set {
            if rel.ord_pred[t].contains(&s) {
                let d = indeg.get_mut(&t).unwrap();
                *d -= 1;
                if *d == 0 {
                    ready.push(t);
                }
            }
        }
    }
    if out.len() == set.len() {
        Some(out)
    } else {
        None
    }
}

/// Predict one phase (one `Work::run`) of an invocation over `targets`.
/// Mutates `st` the way the phase is expected to (for multi-phase prediction).
/// Assumes an unlimited failure budget; the caller decides whether the
/// prediction is exact or an upper bound.
pub fn predict_phase(
    proj: &Project,
    rel: &Rel,
    st: &mut ModelState,
    targets: &[String],
    faults: &BTreeMap<String, FailMode>,
    adopt: bool,
    next_manifest_content: Option<u64>,
) -> Prediction {
    let mut p = Prediction::default();
    p.wanted = rel.closure(proj, targets);
    let Some(order) = topo(rel, &p.wanted) else {
        p.error = Some("dependency cycle".into());
        return p;
    };
    let mut bad: BTreeSet<usize> = BTreeSet::new(); // failed or blocked
    for si in order {
        let step = &proj.steps[si];
        if rel.ord_pred[si].iter().any(|a| bad.contains(a)) {
            bad.insert(si);
            p.blocked.insert(si);
            continue;
        }
        if step.phony {
            continue;
        }
        // The first missing dirtying input decides: a source file is a hard
        // error, a generated file just makes the step dirty (n2 stops looking
        // at the first missing file; fidelity note, not a property).
        if let Some(f) = step.dirtying().find(|f| !st.disk.contains_key(*f)) {
            if !rel.producer.contains_key(f) {
                p.error = Some(format!("input {} missing", f));
                return p;
            }
        }
        let why = dirty_reason(proj, rel, &st.records, si, &st.disk);
        if why == DirtyWhy::Clean {
            continue;
        }
        if adopt {
            // present state recorded with an empty dep list if nothing is missing
            if let Some(rec) = expected_record(proj, step, None, &st.disk) {
                st.records.push(rec);
            }
            p.why.insert(si, why);
            continue;
        }
        p.run.insert(si);
        p.why.insert(si, why);
        let fail = faults.get(&step.id).copied();
        let nm = if step.effect == Effect::Generator { next_manifest_content } else { None };
        apply_effect(proj, step, st, fail, nm);
        match fail {
            Some(FailMode::Interrupt) => {
                p.failed.insert(si);
                bad.insert(si);
                p.interrupted = true;
            }
            Some(_) => {
                p.failed.insert(si);
                bad.insert(si);
            }
            None => {
                let reported: Option<&[String]> =
                    if step.discovers { Some(&step.extra_reads) } else { None };
                if let Some(rec) = expected_record(proj, step, reported, &st.disk) {
                    st.records.push(rec);
                }
            }
        }
    }
    p
}

/// Contents every output would have after a from-scratch build of the current
/// sources (None = the output would not exist).
pub fn clean_contents(proj: &Project, rel: &Rel, disk: &Disk) -> Option<BTreeMap<String, Option<u64>>> {
    let all: BTreeSet<usize> = (0..proj.steps.len()).collect();
    let order = topo(rel, &all)?;
    // start from sources only
    let mut d: Disk = Disk::new();
    for (k, v) in disk {
        if !rel.producer.contains_key(k) {
            d.insert(k.clone(), *v);
        }
    }
    let mut res = BTreeMap::new();
    for si in order {
        let step = &proj.steps[si];
        if step.phony {
            continue;
        }
        let outs: Vec<String> = step.all_outs().cloned().collect();
        let limit = match &step.effect {
            Effect::NoOutput => 0,
            Effect::SomeOutputs(k) => (*k).min(outs.len()),
            _ => outs.len(),
        };
        let contents: Vec<u64> = outs.iter().map(|o| output_content(proj, step, o, &d)).collect();
        for (i, o) in outs.iter().enumerate() {
            if i < limit && !(step.effect == Effect::Generator && *o == proj.manifest) {
                d.insert(o.clone(), FileSt { tick: 0, content: contents[i] });
                res.insert(o.clone(), Some(contents[i]));
            } else if !(step.effect == Effect::Generator && *o == proj.manifest) {
                res.insert(o.clone(), None);
            }
        }
    }
    Some(res)
}
