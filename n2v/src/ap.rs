//! Abstract project (AP): the generator's ground truth about a build, written
//! without reference to n2's data structures.  See DESIGN.md section 4.
use crate::json::J;
use crate::rng::Rng;
use std::collections::{BTreeMap, BTreeSet};

#[derive(Clone, Debug, PartialEq)]
pub enum Effect {
    /// Every output := digest(command, contents of what it reads); new mtime.
    Write,
    /// Like Write, but an output whose content would not change is left alone.
    WriteIfChanged,
    /// Command succeeds but writes nothing.
    NoOutput,
    /// Writes only the first k outputs.
    SomeOutputs(usize),
    /// Writes outputs and also touches (mtime only) the named own input.
    TouchOwnInput(String),
    /// Writes the next manifest generation over the manifest file (plus outputs).
    Generator,
}

#[derive(Clone, Debug)]
pub struct Step {
    pub id: String,
    pub outs: Vec<String>,
    pub iouts: Vec<String>,
    pub ins: Vec<String>,
    pub imps: Vec<String>,
    pub oos: Vec<String>,
    pub vals: Vec<String>,
    pub phony: bool,
    /// Command version; part of the command text.
    pub ver: u32,
    pub pool: Option<String>,
    pub rsp: Option<(String, String)>,
    /// Some(path): the step writes a depfile there (deps = gcc).
    pub depfile: Option<String>,
    pub msvc: bool,
    pub desc: Option<String>,
    pub effect: Effect,
    /// True include set, as the command reports it (spellings as reported).
    pub extra_reads: Vec<String>,
    /// Whether the command reports discovered deps at all.
    pub discovers: bool,
}

impl Step {
    pub fn all_outs(&self) -> impl Iterator<Item = &String> {
        self.outs.iter().chain(self.iouts.iter())
    }
    pub fn dirtying(&self) -> impl Iterator<Item = &String> {
        self.ins.iter().chain(self.imps.iter())
    }
    pub fn ordering(&self) -> impl Iterator<Item = &String> {
        self.ins.iter().chain(self.imps.iter()).chain(self.oos.iter())
    }
    pub fn all_ins(&self) -> impl Iterator<Item = &String> {
        self.ordering().chain(self.vals.iter())
    }
    /// Command text.  Version 0 stands for a rule whose command evaluates to the empty string
    /// (a real, non-phony step that runs `/bin/sh -c ""`).
    pub fn cmd(&self, agent: &str) -> String {
        if self.ver == 0 {
            return String::new();
        }
        format!("{} {} v{}", agent, self.id, self.ver)
    }
}

#[derive(Clone, Debug, Default)]
pub struct Project {
    pub sources: Vec<String>,
    pub steps: Vec<Step>,
    pub pools: Vec<(String, usize)>,
    pub defaults: Vec<Vec<String>>,
    pub builddir: Option<String>,
    pub manifest: String,
    /// Command prefix: "sim" in E1, the agent binary path in E2.
    pub agent: String,
    /// Generator steps carry `hide_success = 1` (an n2 extension).
    pub quiet_generator: bool,
}

/// Reference canonicaliser (DESIGN.md A2), independent of n2's.
pub fn canon_ref(p: &str) -> String {
    let b = p.as_bytes();
    let is_sep = |c: u8| c == b'/' || c == b'\\';
    let mut i = 0;
    let mut lead = String::new();
    if !b.is_empty() && is_sep(b[0]) {
        lead.push(b[0] as char);
        i = 1;
    }
    let mut items: Vec<(&str, &str)> = Vec::new();
    while i < b.len() {
        if is_sep(b[i]) {
            i += 1;
            continue;
        }
        let st = i;
        while i < b.len() && !is_sep(b[i]) {
            i += 1;
        }
        let comp = &p[st..i];
        let sep = if i < b.len() { &p[i..i + 1] } else { "" };
        if i < b.len() {
            i += 1;
        }
        if comp == "." {
            continue;
        }
        if comp == ".." {
            if !items.is_empty() && items.last().unwrap().0 != ".." {
                items.pop();
            } else {
                items.push(("..", sep));
            }
        } else {
            items.push((comp, sep));
        }
    }
    let mut out = lead;
    for (t, s) in items {
        out.push_str(t);
        out.push_str(s);
    }
    if out.is_empty() {
        ".".to_string()
    } else {
        out
    }
}

/// Derived relations over a Project.
pub struct Rel {
    /// file name -> producing step index
    pub producer: BTreeMap<String, usize>,
    /// step -> direct ordering predecessor steps
    pub ord_pred: Vec<BTreeSet<usize>>,
    /// step -> transitive ordering ancestors
    pub ord_anc: Vec<BTreeSet<usize>>,
    /// step -> direct predecessor steps over all edge kinds (incl. validation)
    pub all_pred: Vec<BTreeSet<usize>>,
}

impl Rel {
    pub fn new(p: &Project) -> Rel {
        let mut producer = BTreeMap::new();
        for (i, s) in p.steps.iter().enumerate() {
            for o in s.all_outs() {
                producer.entry(o.clone()).or_insert(i);
            }
        }
        let n = p.steps.len();
        let mut ord_pred = vec![BTreeSet::new(); n];
        let mut all_pred = vec![BTreeSet::new(); n];
        for (i, s) in p.steps.iter().enumerate() {
            for f in s.ordering() {
                if let Some(&pi) = producer.get(f) {
                    ord_pred[i].insert(pi);
                    all_pred[i].insert(pi);
                }
            }
            for f in s.vals.iter() {
                if let Some(&pi) = producer.get(f) {
                    all_pred[i].insert(pi);
                }
            }
        }
        // transitive closure by DFS (graphs are small)
        let mut ord_anc = vec![BTreeSet::new(); n];
        for i in 0..n {
            let mut stack: Vec<usize> = ord_pred[i].iter().copied().collect();
            let mut seen = BTreeSet::new();
            while let Some(x) = stack.pop() {
                if !seen.insert(x) {
                    continue;
                }
                for &y in &ord_pred[x] {
                    stack.push(y);
                }
            }
            ord_anc[i] = seen;
        }
        Rel { producer, ord_pred, ord_anc, all_pred }
    }

    /// Steps needed by the given target files: closure over all edge kinds.
    pub fn closure(&self, p: &Project, targets: &[String]) -> BTreeSet<usize> {
        let mut seen = BTreeSet::new();
        let mut stack: Vec<usize> = targets
            .iter()
            .filter_map(|t| self.producer.get(t).copied())
            .collect();
        while let Some(x) = stack.pop() {
            if !seen.insert(x) {
                continue;
            }
            for &y in &self.all_pred[x] {
                stack.push(y);
            }
        }
        let _ = p;
        seen
    }

    /// Some ordering cycle reachable (over all edges) from the targets, if any,
    /// else None.  Detects cycles using ordering edges only.
    pub fn has_ordering_cycle_in(&self, steps: &BTreeSet<usize>) -> bool {
        steps.iter().any(|&s| self.ord_anc[s].contains(&s))
    }
}

impl Project {
    /// Effective target files of an invocation with the given command-line targets.
    pub fn effective_targets(&self, cmdline: &[String]) -> Vec<String> {
        if !cmdline.is_empty() {
            return cmdline.iter().map(|t| canon_ref(t)).collect();
        }
        if !self.defaults.is_empty() {
            return self.defaults.iter().flatten().map(|t| canon_ref(t)).collect();
        }
        // every output (every file in fact, but only outputs have producers),
        // except the manifest itself.
        let mut v = Vec::new();
        for s in &self.steps {
            for o in s.all_outs() {
                if *o != self.manifest {
                    v.push(o.clone());
                }
            }
        }
        v
    }

    pub fn step_index(&self, id: &str) -> Option<usize> {
        self.steps.iter().position(|s| s.id == id)
    }

    pub fn to_json(&self) -> J {
        let mut steps = Vec::new();
        for s in &self.steps {
            let mut o = J::obj();
            o.set("id", J::s(&s.id));
            o.set("outs", J::strs(s.outs.iter().cloned()));
            if !s.iouts.is_empty() {
                o.set("iouts", J::strs(s.iouts.iter().cloned()));
            }
            o.set("ins", J::strs(s.ins.iter().cloned()));
            if !s.imps.is_empty() {
                o.set("imps", J::strs(s.imps.iter().cloned()));
            }
            if !s.oos.is_empty() {
                o.set("oos", J::strs(s.oos.iter().cloned()));
            }
            if !s.vals.is_empty() {
                o.set("vals", J::strs(s.vals.iter().cloned()));
            }
            if s.phony {
                o.set("phony", J::Bool(true));
            }
            if let Some(p) = &s.pool {
                o.set("pool", J::s(p));
            }
            if s.effect != Effect::Write {
                o.set("effect", J::s(format!("{:?}", s.effect)));
            }
            if s.discovers {
                o.set("reports", J::strs(s.extra_reads.iter().cloned()));
            }
            if let Some((p, c)) = &s.rsp {
                o.set("rsp", J::strs([p.clone(), c.clone()]));
            }
            o.set("ver", J::i(s.ver));
            steps.push(o);
        }
        let mut o = J::obj();
        o.set("sources", J::strs(self.sources.iter().cloned()));
        o.set("steps", J::Arr(steps));
        if !self.pools.is_empty() {
            o.set(
                "pools",
                J::Arr(self.pools.iter().map(|(n, d)| J::Arr(vec![J::s(n), J::i(*d)])).collect()),
            );
        }
        if !self.defaults.is_empty() {
            o.set(
                "defaults",
                J::Arr(self.defaults.iter().map(|d| J::strs(d.iter().cloned())).collect()),
            );
        }
        if let Some(b) = &self.builddir {
            o.set("builddir", J::s(b));
        }
        o.set("manifest", J::s(&self.manifest));
        o
    }

    /// Shape hash: structure without version numbers.
    pub fn shape_hash(&self) -> u64 {
        let mut h = crate::rng::fnv(b"shape");
        for s in &self.steps {
            for (tag, list) in [
                ("o", &s.outs),
                ("io", &s.iouts),
                ("i", &s.ins),
                ("im", &s.imps),
                ("oo", &s.oos),
                ("v", &s.vals),
            ] {
                h = crate::rng::fnv_combine(h, crate::rng::fnv(tag.as_bytes()));
                for f in list.iter() {
                    h = crate::rng::fnv_combine(h, crate::rng::fnv(f.as_bytes()));
                }
            }
            h = crate::rng::fnv_combine(h, s.phony as u64);
            if let Some(p) = &s.pool {
                h = crate::rng::fnv_combine(h, crate::rng::fnv(p.as_bytes()));
            }
        }
        for (n, d) in &self.pools {
            h = crate::rng::fnv_combine(h, crate::rng::fnv(n.as_bytes()) ^ (*d as u64));
        }
        h
    }
}

// ------------------------------------------------------------------------
// Rendering to .ninja text (plain spelling; C10's renderer adds the spelling
// dimensions on top of its own abstract manifests).

pub fn esc_path(p: &str) -> String {
    let mut s = String::new();
    for c in p.chars() {
        match c {
            ' ' => s.push_str("$ "),
            ':' => s.push_str("$:"),
            '$' => s.push_str("$$"),
            c => s.push(c),
        }
    }
    s
}

fn esc_val(p: &str) -> String {
    p.replace('$', "$$")
}

#[derive(Clone, Debug, Default)]
pub struct RenderOpts {
    /// Permutation seed for statement order (0 = natural order).
    pub perm_seed: u64,
    /// Extra comment / blank lines and unrelated statements.
    pub noise: bool,
    /// Rule name prefix (renaming rules must not matter).
    pub rule_prefix: String,
    /// Put command text in a file-level variable instead of inline.
    pub via_vars: bool,
    /// Move the second half of the statements into an included file.
    pub split_include: Option<String>,
    /// Optional per-path spelling function index (C13 variants); 0 = canonical.
    pub spell_seed: u64,
    /// Non-zero: some paths on build lines are written as `$pvN`, bound in the statement's own block;
    /// a file-level variable of the same name (with another value) is shadowed by it.
    pub shadow_seed: u64,
    /// A `subninja` file that binds `builddir` (private to that file: nothing may change).
    pub sub_builddir: bool,
}

/// Produce a non-canonical spelling that canonicalises to `p` and keeps the
/// trailing form (nothing is changed after the last component starts).
pub fn respell(p: &str, rng: &mut Rng) -> String {
    // split into leading dir part and last component
    let cut = p.rfind('/').map(|i| i + 1).unwrap_or(0);
    let (dir, last) = p.split_at(cut);
    let mut out = String::new();
    let rooted = dir.starts_with('/');
    let comps: Vec<&str> = dir.split('/').filter(|c| !c.is_empty()).collect();
    if rooted {
        out.push('/');
    }
    // n2 reads both '/' and '\\' as separators; noise written with either disappears entirely
    let mut emit_noise = |out: &mut String, rng: &mut Rng| match rng.below(8) {
        0 => out.push_str("./"),
        1 => out.push_str("zz/../"),
        2 => out.push_str(".//"),
        3 => out.push_str("q/r/../../"),
        4 => out.push_str(".\\"),
        5 => out.push_str("zz\\..\\"),
        _ => {}
    };
    // noise "x/.." before a leading ".." would change meaning only if it came
    // before; inserting after leading ".." components is always safe, and at
    // the very start it is safe too ("zz/../../a" == "../a").
    for c in comps.iter() {
        emit_noise(&mut out, rng);
        out.push_str(c);
        out.push('/');
        if rng.chance(1, 6) {
            out.push('/');
        }
    }
    emit_noise(&mut out, rng);
    out.push_str(last);
    out
}

impl Project {
    pub fn render(&self, opts: &RenderOpts) -> Vec<(String, String)> {
        // returns (file name, text) pairs; first is the main manifest
        let mut rng = Rng::new(opts.spell_seed);
        let spell = |p: &str, rng: &mut Rng| -> String {
            if opts.spell_seed == 0 {
                esc_path(p)
            } else {
                esc_path(&respell(p, rng))
            }
        };
        let mut head = String::new();
        if let Some(b) = &self.builddir {
            head.push_str(&format!("builddir = {}\n", esc_val(b)));
        }
        for (n, d) in &self.pools {
            head.push_str(&format!("pool {}\n  depth = {}\n", n, d));
        }
        let mut stmts: Vec<String> = Vec::new();
        let mut shadow_rng = Rng::new(opts.shadow_seed);
        let mut shadow_count = 0usize;
        let mut shadow_head = String::new();
        for s in &self.steps {
            let mut t = String::new();
            let mut block_binds: Vec<(String, String)> = Vec::new();
            // a path token, sometimes spelled through a block variable that shadows a file-level one
            let mut tok = |p: &str, rng: &mut Rng, block_binds: &mut Vec<(String, String)>| -> String {
                let text = spell(p, rng);
                if opts.shadow_seed != 0 && block_binds.len() < 2 && shadow_rng.chance(1, 6) {
                    shadow_count += 1;
                    let name = format!("pv{}", shadow_count);
                    shadow_head.push_str(&format!("{} = shadowed/elsewhere{}\n", name, shadow_count));
                    block_binds.push((name.clone(), text));
                    if shadow_rng.chance(1, 2) { format!("${}", name) } else { format!("${{{}}}", name) }
                } else {
                    text
                }
            };
            let rule = if s.phony {
                "phony".to_string()
            } else {
                let rn = format!("{}r_{}", opts.rule_prefix, s.id);
                if opts.noise {
                    t.push_str(&format!("# rule for {}\n", s.id));
                }
                if opts.via_vars {
                    t.push_str(&format!("cmd_{} = {}\n", s.id, esc_val(&s.cmd(&self.agent))));
                }
                t.push_str(&format!("rule {}\n", rn));
                if s.ver == 0 {
                    t.push_str("  command = $this_variable_is_not_defined\n");
                } else if opts.via_vars {
                    t.push_str(&format!("  command = $cmd_{}\n", s.id));
                } else {
                    t.push_str(&format!("  command = {}\n", esc_val(&s.cmd(&self.agent))));
                }
                if let Some(d) = &s.desc {
                    t.push_str(&format!("  description = {}\n", esc_val(d)));
                }
                if let Some(d) = &s.depfile {
                    t.push_str(&format!("  depfile = {}\n", esc_val(d)));
                }
                if s.msvc {
                    t.push_str("  deps = msvc\n");
                }
                if let Some((p, c)) = &s.rsp {
                    t.push_str(&format!("  rspfile = {}\n", esc_val(p)));
                    t.push_str(&format!("  rspfile_content = {}\n", esc_val(c)));
                }
                if let Some(p) = &s.pool {
                    if opts.via_vars {
                        // the pool name comes from a binding in the build block
                        t.push_str("  pool = $job_pool\n");
                    } else {
                        t.push_str(&format!("  pool = {}\n", p));
                    }
                }
                if self.quiet_generator && s.effect == Effect::Generator {
                    t.push_str("  hide_success = 1\n");
                }
                rn
            };
            t.push_str("build");
            for o in &s.outs {
                t.push(' ');
                t.push_str(&tok(o, &mut rng, &mut block_binds));
            }
            if !s.iouts.is_empty() {
                t.push_str(" |");
                for o in &s.iouts {
                    t.push(' ');
                    t.push_str(&tok(o, &mut rng, &mut block_binds));
                }
            }
            t.push_str(&format!(": {}", rule));
            for i in &s.ins {
                t.push(' ');
                t.push_str(&tok(i, &mut rng, &mut block_binds));
            }
            if !s.imps.is_empty() {
                t.push_str(" |");
                for i in &s.imps {
                    t.push(' ');
                    t.push_str(&tok(i, &mut rng, &mut block_binds));
                }
            }
            if !s.oos.is_empty() {
                t.push_str(" ||");
                for i in &s.oos {
                    t.push(' ');
                    t.push_str(&tok(i, &mut rng, &mut block_binds));
                }
            }
            if !s.vals.is_empty() {
                t.push_str(" |@");
                for i in &s.vals {
                    t.push(' ');
                    t.push_str(&tok(i, &mut rng, &mut block_binds));
                }
            }
            t.push('\n');
            if opts.via_vars && !s.phony {
                if let Some(p) = &s.pool {
                    t.push_str(&format!("  job_pool = {}\n", p));
                }
            }
            for (n, v) in &block_binds {
                t.push_str(&format!("  {} = {}\n", n, v));
            }
            if opts.noise {
                t.push('\n');
            }
            stmts.push(t);
        }
        if opts.perm_seed != 0 {
            Rng::new(opts.perm_seed).shuffle(&mut stmts);
        }
        if opts.noise {
            // unrelated statements: shift every internal id
            stmts.insert(
                0,
                "rule zz_unrelated\n  command = true\nbuild zz_u1 zz_u2: phony\n".to_string(),
            );
        }
        let mut tail = String::new();
        if opts.via_vars && !self.defaults.is_empty() {
            tail.push_str("top = .\n");
        }
        for d in &self.defaults {
            tail.push_str("default");
            for t in d {
                tail.push(' ');
                if opts.via_vars && !t.starts_with('/') {
                    tail.push_str("$top/");
                }
                tail.push_str(&spell(t, &mut rng));
            }
            tail.push('\n');
        }
        let mut files = Vec::new();
        let mut head = head;
        head.push_str(&shadow_head);
        if opts.sub_builddir {
            // before or after everything else, by the spelling seed's parity
            if opts.perm_seed % 2 == 0 {
                head.push_str("subninja vendored.ninja\n");
            } else {
                tail.push_str("subninja vendored.ninja\n");
            }
        }
        match &opts.split_include {
            None => {
                let mut text = head;
                for s in &stmts {
                    text.push_str(s);
                }
                text.push_str(&tail);
                files.push((self.manifest.clone(), text));
            }
            Some(inc) => {
                let half = stmts.len() / 2;
                let mut text = head;
                for s in &stmts[..half] {
                    text.push_str(s);
                }
                text.push_str(&format!("include {}\n", esc_path(inc)));
                text.push_str(&tail);
                let mut sub = String::new();
                for s in &stmts[half..] {
                    sub.push_str(s);
                }
                files.push((self.manifest.clone(), text));
                files.push((inc.clone(), sub));
            }
        }
        if opts.sub_builddir {
            files.push(("vendored.ninja".to_string(), "builddir = vend\nrule vendored_cc\n  command = true\n".to_string()));
        }
        files
    }
}

// ------------------------------------------------------------------------
// Generator

#[derive(Clone, Debug)]
pub struct GenOpts {
    pub min_steps: usize,
    pub max_steps: usize,
    pub max_sources: usize,
    pub pools: bool,
    pub phony: bool,
    pub validations: bool,
    pub order_only: bool,
    pub multi_out: bool,
    pub subdirs: bool,
    pub defaults: bool,
    /// bias towards wide graphs (many independent steps)
    pub wide: bool,
    pub discovers: bool,
    /// restat-like and other effects
    pub effects: bool,
}

impl Default for GenOpts {
    fn default() -> Self {
        GenOpts {
            min_steps: 2,
            max_steps: 10,
            max_sources: 5,
            pools: true,
            phony: true,
            validations: true,
            order_only: true,
            multi_out: true,
            subdirs: true,
            defaults: false,
            wide: false,
            discovers: false,
            effects: false,
        }
    }
}

pub fn gen_project(rng: &mut Rng, o: &GenOpts) -> Project {
    let mut p = Project {
        manifest: "build.ninja".into(),
        agent: "sim".into(),
        ..Default::default()
    };
    let nsrc = rng.range(1, o.max_sources.max(1));
    for i in 0..nsrc {
        let name = if o.subdirs && rng.chance(1, 3) {
            format!("src/s{}.c", i)
        } else {
            format!("s{}.c", i)
        };
        p.sources.push(name);
    }
    if o.pools {
        let np = rng.below(4);
        for i in 0..np {
            p.pools.push((format!("p{}", i), rng.below(4)));
        }
    }
    let nsteps = rng.range(o.min_steps, o.max_steps);
    // files usable as dirtying inputs: sources + outputs of non-phony earlier steps
    let mut real_outs: Vec<String> = Vec::new();
    let mut phony_outs: Vec<String> = Vec::new();
    for i in 0..nsteps {
        let phony = o.phony && i > 0 && rng.chance(1, 7);
        let id = format!("t{}", i);
        let mut s = Step {
            id: id.clone(),
            outs: vec![],
            iouts: vec![],
            ins: vec![],
            imps: vec![],
            oos: vec![],
            vals: vec![],
            phony,
            ver: 1,
            pool: None,
            rsp: None,
            depfile: None,
            msvc: false,
            desc: None,
            effect: Effect::Write,
            extra_reads: vec![],
            discovers: false,
        };
        let pick_from = |rng: &mut Rng, pool: &[&Vec<String>], k: usize, into: &mut Vec<String>, used: &mut BTreeSet<String>| {
            let all: Vec<&String> = pool.iter().flat_map(|v| v.iter()).collect();
            if all.is_empty() {
                return;
            }
            for _ in 0..k {
                let f = (*rng.pick(&all)).clone();
                if used.insert(f.clone()) {
                    into.push(f);
                }
            }
        };
        let mut used = BTreeSet::new();
        if phony {
            s.outs.push(format!("ph{}", i));
            let k = rng.range(0, 3);
            // phony steps aggregate anything
            pick_from(rng, &[&real_outs, &phony_outs, &p.sources], k, &mut s.ins, &mut used);
            if o.order_only && rng.chance(1, 4) {
                pick_from(rng, &[&real_outs, &phony_outs], 1, &mut s.oos, &mut used);
            }
        } else {
            let dir = if o.subdirs && rng.chance(1, 3) { "out/" } else { "" };
            s.outs.push(format!("{}o{}", dir, i));
            if o.multi_out && rng.chance(1, 4) {
                s.outs.push(format!("{}o{}b", dir, i));
            }
            if o.multi_out && rng.chance(1, 5) {
                s.iouts.push(format!("{}o{}i", dir, i));
            }
            let depth_bias = if o.wide { 4 } else { 1 };
            let k = rng.range(0, 3);
            if rng.chance(1, depth_bias) {
                pick_from(rng, &[&real_outs, &p.sources], k, &mut s.ins, &mut used);
            } else {
                pick_from(rng, &[&p.sources], k.min(2), &mut s.ins, &mut used);
            }
            if rng.chance(1, 3) {
                let k = rng.range(1, 2);
                pick_from(rng, &[&real_outs, &p.sources], k, &mut s.imps, &mut used);
            }
            if o.order_only && rng.chance(1, 3) {
                let k = rng.range(1, 2);
                pick_from(rng, &[&real_outs, &phony_outs, &p.sources], k, &mut s.oos, &mut used);
            }
            if !p.pools.is_empty() && rng.chance(1, 2) {
                s.pool = Some(rng.pick(&p.pools).0.clone());
            } else if o.pools && rng.chance(1, 10) {
                s.pool = Some("console".into());
            }
            if rng.chance(1, 6) {
                s.desc = Some(format!("desc of {}", id));
            }
            if o.effects {
                match rng.below(8) {
                    0 => s.effect = Effect::WriteIfChanged,
                    1 => s.effect = Effect::WriteIfChanged,
                    _ => {}
                }
            }
            if o.discovers && rng.chance(1, 2) {
                s.discovers = true;
                let k = rng.range(0, 3);
                let mut hdrs = Vec::new();
                for _ in 0..k {
                    hdrs.push(format!("h{}.h", rng.below(4)));
                }
                // the classic: a generated header that is only an order-only input in the
                // manifest and is reported by the compiler (an ordering path exists)
                for f in &s.oos {
                    if real_outs.contains(f) && rng.chance(1, 2) {
                        hdrs.push(f.clone());
                    }
                }
                s.extra_reads = hdrs;
            }
        }
        if phony {
            phony_outs.extend(s.outs.iter().cloned());
        } else {
            real_outs.extend(s.all_outs().cloned());
        }
        p.steps.push(s);
    }
    // validation edges: may point anywhere, including forward (cycles through
    // validation are legal).
    if o.validations {
        let all_outs: Vec<String> = p.steps.iter().flat_map(|s| s.all_outs().cloned()).collect();
        for i in 0..p.steps.len() {
            if rng.chance(1, 4) {
                let k = rng.range(1, 2);
                for _ in 0..k {
                    let f = rng.pick(&all_outs).clone();
                    let s = &mut p.steps[i];
                    if !s.all_ins().any(|x| *x == f) && !s.all_outs().any(|x| *x == f) {
                        s.vals.push(f);
                    }
                }
            }
        }
    }
    // header files used by discovered deps are sources too
    if o.discovers {
        for h in 0..4 {
            p.sources.push(format!("h{}.h", h));
        }
    }
    if o.defaults && rng.chance(2, 3) {
        let all_outs: Vec<String> = p.steps.iter().flat_map(|s| s.outs.iter().cloned()).collect();
        let nd = rng.range(1, 3);
        for _ in 0..nd {
            let k = rng.range(1, 2);
            let mut d = Vec::new();
            for _ in 0..k {
                d.push(rng.pick(&all_outs).clone());
            }
            p.defaults.push(d);
        }
    }
    p
}
