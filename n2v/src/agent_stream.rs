//! Deterministic output stream of a task (shared by the agent and the checker).
/// Lines `<id>:<seq>:<filler>`, cut to `total` bytes.
pub fn make_stream(id: &str, total: usize, final_newline: bool) -> Vec<u8> {
    let mut v = Vec::with_capacity(total + 128);
    let mut seq = 0u64;
    while v.len() < total {
        let line = format!("{}:{:06}:{}", id, seq, "abcdefghijklmnopqrstuvwxyz0123456789".repeat(1 + (seq % 3) as usize));
        v.extend_from_slice(line.as_bytes());
        // commands print whatever bytes they like: Latin-1, truncated UTF-8, binary
        match seq % 4 {
            1 => v.extend_from_slice(b" caf\xe9 \xff\xfe\x80"),
            2 => v.extend_from_slice(" é ビ 😀".as_bytes()),
            3 => v.extend_from_slice(b" \xe3\x83"),
            _ => {}
        }
        // DOS line ends and bare carriage returns (progress redraws) are output like any other
        if seq % 8 == 5 {
            v.push(b'\r');
        }
        if seq % 16 == 9 {
            v.extend_from_slice(b"\rredrawn");
        }
        v.push(b'\n');
        seq += 1;
    }
    v.truncate(total);
    if total > 0 {
        let last = total - 1;
        if final_newline {
            v[last] = b'\n';
        } else if v[last] == b'\n' {
            v[last] = b'.';
        }
    }
    v
}
