//! Independent reader of the `.n2_db` format (DESIGN.md A1).  Shares no code
//! with n2's reader.
#[derive(Clone, Debug, PartialEq)]
pub enum Rec {
    Path(String),
    Build { outs: Vec<u32>, deps: Vec<u32>, hash: u64 },
}

#[derive(Clone, Debug, Default)]
pub struct ParsedDb {
    pub header_ok: bool,
    pub recs: Vec<Rec>,
    /// Offset just after the last complete record (or header).
    pub good_len: usize,
    /// True if bytes remain after good_len (a torn tail).
    pub torn: bool,
    /// Set when the content cannot be a prefix of a well-formed file.
    pub malformed: Option<String>,
}

pub fn parse_record(b: &[u8]) -> Option<(Rec, usize)> {
    if b.len() < 2 {
        return None;
    }
    let w = u16::from_le_bytes([b[0], b[1]]);
    if w & 0x8000 == 0 {
        let len = w as usize;
        if b.len() < 2 + len {
            return None;
        }
        let name = String::from_utf8_lossy(&b[2..2 + len]).into_owned();
        Some((Rec::Path(name), 2 + len))
    } else {
        let nouts = (w & 0x7fff) as usize;
        let mut i = 2;
        let rd24 = |b: &[u8], i: usize| -> Option<u32> {
            if b.len() < i + 3 {
                None
            } else {
                Some(b[i] as u32 | (b[i + 1] as u32) << 8 | (b[i + 2] as u32) << 16)
            }
        };
        let mut outs = Vec::with_capacity(nouts);
        for _ in 0..nouts {
            outs.push(rd24(b, i)?);
            i += 3;
        }
        if b.len() < i + 2 {
            return None;
        }
        let ndeps = u16::from_le_bytes([b[i], b[i + 1]]) as usize;
        i += 2;
        let mut deps = Vec::with_capacity(ndeps);
        for _ in 0..ndeps {
            deps.push(rd24(b, i)?);
            i += 3;
        }
        if b.len() < i + 8 {
            return None;
        }
        let mut h = [0u8; 8];
        h.copy_from_slice(&b[i..i + 8]);
        i += 8;
        Some((Rec::Build { outs, deps, hash: u64::from_le_bytes(h) }, i))
    }
}

pub fn parse_db(b: &[u8]) -> ParsedDb {
    let mut p = ParsedDb::default();
    let sig = b"n2db\x01\x00\x00\x00";
    if b.len() < 8 {
        if !sig.starts_with(b) {
            p.malformed = Some("bad signature prefix".into());
        }
        p.torn = !b.is_empty();
        return p;
    }
    if &b[..8] != sig {
        p.malformed = Some("bad signature".into());
        return p;
    }
    p.header_ok = true;
    let mut i = 8;
    let mut npaths: u32 = 0;
    while i < b.len() {
        match parse_record(&b[i..]) {
            None => {
                p.torn = true;
                break;
            }
            Some((r, n)) => {
                match &r {
                    Rec::Path(_) => npaths += 1,
                    Rec::Build { outs, deps, .. } => {
                        if outs.iter().chain(deps.iter()).any(|&id| id >= npaths) {
                            p.malformed = Some(format!("id out of range at offset {}", i));
                            p.good_len = i;
                            return p;
                        }
                    }
                }
                p.recs.push(r);
                i += n;
            }
        }
    }
    p.good_len = i;
    p
}

/// A build record with ids resolved to names.
#[derive(Clone, Debug, PartialEq)]
pub struct NamedBuild {
    pub outs: Vec<String>,
    pub deps: Vec<String>,
    pub hash: u64,
}

pub fn named_builds(p: &ParsedDb) -> Vec<NamedBuild> {
    let mut names: Vec<String> = Vec::new();
    let mut v = Vec::new();
    for r in &p.recs {
        match r {
            Rec::Path(n) => names.push(n.clone()),
            Rec::Build { outs, deps, hash } => v.push(NamedBuild {
                outs: outs.iter().map(|&i| names[i as usize].clone()).collect(),
                deps: deps.iter().map(|&i| names[i as usize].clone()).collect(),
                hash: *hash,
            }),
        }
    }
    v
}

pub fn path_names(p: &ParsedDb) -> Vec<String> {
    p.recs
        .iter()
        .filter_map(|r| if let Rec::Path(n) = r { Some(n.clone()) } else { None })
        .collect()
}
