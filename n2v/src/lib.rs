//! n2v: runtime-monitoring harness for evmar/n2 (see /verif/DESIGN.md).
//! Library part: engines, models, oracles.  `src/main.rs` is the worker command line; the
//! fuzz targets under `fuzz/` call the same oracles.
pub mod agent_stream;
pub mod ap;
pub mod dbfmt;
pub mod json;
pub mod model;
pub mod props;
pub mod pure;
pub mod real;
pub mod report;
pub mod rng;
pub mod sim;

use report::Report;
use std::path::PathBuf;
use std::time::{Duration, Instant};

pub struct Ctx {
    pub prop: String,
    pub tier: String,
    pub seed: u64,
    pub shard: usize,
    pub nshards: usize,
    pub deadline: Instant,
    pub scratch: PathBuf,
    pub only_case: Option<u64>,
    pub max_cases: u64,
    pub journal: Option<PathBuf>,
    pub verbose: bool,
    /// start the case/input enumeration here (abort attribution)
    pub from_case: Option<u64>,
    /// journal every input instead of every 1024th
    pub fine_journal: bool,
    pub args: Vec<String>,
    pub out: Option<PathBuf>,
    pub last_checkpoint: std::cell::Cell<Instant>,
    pub started: Instant,
}

impl Ctx {
    pub fn thorough(&self) -> bool {
        self.tier == "thorough"
    }
    pub fn expired(&self) -> bool {
        Instant::now() >= self.deadline
    }
    /// Write the report collected so far (at most once a second), so that a
    /// worker killed by an abort inside n2 does not take its observations with it.
    pub fn checkpoint(&self, rep: &Report) {
        let Some(out) = &self.out else { return };
        if self.only_case.is_some() || self.last_checkpoint.get().elapsed() < Duration::from_millis(1000) {
            return;
        }
        self.last_checkpoint.set(Instant::now());
        let mut j = rep.to_json();
        j.set("wall_s", json::J::Num(self.started.elapsed().as_secs_f64()));
        j.set("seed", json::J::i(self.seed));
        j.set("shard", json::J::i(self.shard));
        j.set("checkpoint", json::J::Bool(true));
        let tmp = out.with_extension("tmp");
        if std::fs::write(&tmp, j.dump()).is_ok() {
            let _ = std::fs::rename(&tmp, out);
        }
    }
    pub fn arg(&self, name: &str) -> Option<&str> {
        arg(&self.args, name)
    }
    pub fn journal(&self, case: u64) {
        if let Some(p) = &self.journal {
            let _ = std::fs::write(p, format!("{}\n", case));
        }
    }
}

pub fn arg<'a>(args: &'a [String], name: &str) -> Option<&'a str> {
    args.iter().position(|a| a == name).and_then(|i| args.get(i + 1)).map(|s| s.as_str())
}

