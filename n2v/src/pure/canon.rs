//! C13: lexical path canonicalisation.
use super::{count_strings, guarded, input_loop, nth_string};
use crate::ap::canon_ref;
use crate::json::J;
use crate::report::Report;
use crate::rng::{fnv, Rng};
use crate::Ctx;

fn is_sep(c: u8) -> bool {
    c == b'/' || c == b'\\'
}

/// (rooted, leading dotdots, components) — the location a path denotes.
fn location(p: &str) -> (bool, usize, Vec<String>) {
    let b = p.as_bytes();
    let rooted = !b.is_empty() && is_sep(b[0]);
    let mut up = 0;
    let mut comps: Vec<String> = Vec::new();
    for c in p.split(|c| c == '/' || c == '\\') {
        match c {
            "" | "." => {}
            ".." => {
                if comps.is_empty() {
                    up += 1;
                } else {
                    comps.pop();
                }
            }
            c => comps.push(c.to_string()),
        }
    }
    (rooted, up, comps)
}

fn ncomponents(p: &str) -> usize {
    p.split(|c| c == '/' || c == '\\').filter(|c| !c.is_empty()).count()
}

fn check_one(p: &str, rep: &mut Report, idx: u64) {
    if p.is_empty() || ncomponents(p) > 400 {
        return;
    }
    rep.evaluations += 1;
    let input = p.to_string();
    let res = guarded(|| {
        let mut s = input.clone();
        n2::canon::canonicalize_path(&mut s);
        let mut t = s.clone();
        n2::canon::canonicalize_path(&mut t);
        (s, t)
    });
    let case = || J::obj().with("case", J::i(idx)).with("path", J::s(p));
    let (c, cc) = match res {
        Ok(x) => x,
        Err(m) => {
            rep.violation(&format!("panic:{}", crate::sim::panic_sig(&m)), &format!("canonicalize_path({:?}) panicked: {}", p, m), case());
            return;
        }
    };
    let expect = canon_ref(p);
    if c != expect {
        rep.violation("differs-from-reference", &format!("canon({:?}) = {:?}, reference gives {:?}", p, c, expect), case());
    }
    if cc != c {
        rep.violation("not-idempotent", &format!("canon({:?}) = {:?} but canon of that = {:?}", p, c, cc), case());
    }
    if c.len() > p.len() {
        rep.violation("lengthened", &format!("canon({:?}) = {:?} is longer", p, c), case());
    }
    if location(&c) != location(p) {
        rep.violation("location-changed", &format!("canon({:?}) = {:?} denotes another location", p, c), case());
    }
    // forbidden components in the result
    if c != "." {
        let body = if is_sep(c.as_bytes()[0]) { &c[1..] } else { &c[..] };
        let comps: Vec<&str> = body.split(|ch| ch == '/' || ch == '\\').collect();
        let mut seen_normal = false;
        for (i, comp) in comps.iter().enumerate() {
            let last = i + 1 == comps.len();
            if comp.is_empty() && !last {
                rep.violation("empty-component-left", &format!("canon({:?}) = {:?}", p, c), case());
            }
            if *comp == "." {
                rep.violation("dot-component-left", &format!("canon({:?}) = {:?}", p, c), case());
            }
            if *comp == ".." && seen_normal {
                rep.violation("dotdot-after-name", &format!("canon({:?}) = {:?}", p, c), case());
            }
            if *comp != ".." && !comp.is_empty() {
                seen_normal = true;
            }
        }
    }
    if c != p {
        rep.nontrivial.insert(fnv(p.as_bytes()));
        rep.sample(|| J::obj().with("path", J::s(p)).with("canon", J::s(&c)));
    }
}

pub fn run(ctx: &Ctx, rep: &mut Report) {
    let a1: [&str; 4] = ["a", ".", "/", "\\"];
    let a2: [&str; 4] = ["a", "b", ".", "/"];
    let (n1, n2) = if ctx.thorough() { (11, 10) } else { (9, 8) };
    let c1 = count_strings(4, n1);
    let c2 = count_strings(4, n2);
    rep.max("max_exhaustive_domain_size", c1 + c2);
    input_loop(ctx, rep, c1 + c2, |idx, ex, rep| {
        if ex {
            let s = if idx < c1 { nth_string(idx, &a1, n1) } else { nth_string(idx - c1, &a2, n2) };
            if let Some(s) = s {
                rep.count("exhaustive_inputs", 1);
                check_one(&s, rep, idx);
            }
        } else {
            let mut rng = Rng::new(crate::rng::mix64(ctx.seed ^ idx.wrapping_mul(0x9e3779b97f4a7c15)));
            // mostly within the 60 components the first sentence of the property is about; node
            // identity (second sentence) is not bounded, so deep paths are exercised too
            let ncomp = if rng.chance(1, 6) { rng.range(61, 200) } else { rng.range(1, 60) };
            let mut s = String::new();
            if rng.chance(1, 4) {
                s.push(if rng.chance(1, 2) { '/' } else { '\\' });
            }
            let names = ["a", "bb", "..", ".", "", "é", "日本", "..x", ".hidden", "x.y", "long_component_name_0123456789", "...", "😀"];
            for i in 0..ncomp {
                s.push_str(*rng.pick(&names[..]));
                if i + 1 < ncomp || rng.chance(1, 3) {
                    s.push(if rng.chance(1, 5) { '\\' } else { '/' });
                }
            }
            rep.count("random_inputs", 1);
            check_one(&s, rep, idx);
            // node identity: a respelling (noise before the last component) canonicalises identically
            let base = canon_ref(&s);
            if !base.contains('\\') && base != "." {
                let v = crate::ap::respell(&base, &mut rng);
                if ncomponents(&v) <= 400 {
                    let vv = v.clone();
                    if let Ok(c) = guarded(move || n2::canon::to_owned_canon_path(vv)) {
                        rep.count("respell_pairs", 1);
                        if c != base {
                            rep.violation("respelling-different-node", &format!("{:?} and {:?} denote the same location but canonicalise to {:?} and {:?}", base, v, base, c), J::obj().with("case", J::i(idx)).with("path", J::s(&v)));
                        }
                    }
                    // the same two spellings written in a manifest: as output of one statement, as input of
                    // another and as default target they must be one node (the loader's own resolution)
                    if rng.chance(1, 3) && !base.is_empty() && ncomponents(&v) <= 120 && !s.contains('\0') && !s.contains('\n') {
                        let text = format!(
                            "build {}: phony\nbuild loader_probe: phony {} {}\ndefault {}\n",
                            crate::ap::esc_path(&v),
                            crate::ap::esc_path(&s),
                            crate::ap::esc_path(&base),
                            crate::ap::esc_path(&s)
                        );
                        let bytes = text.clone().into_bytes();
                        if let Ok(Ok(d)) = guarded(move || n2::load::verif_load("build.ninja", Some(bytes)).map_err(|e| e.to_string())) {
                            rep.count("loader_spelling_probes", 1);
                            let probe = d.builds.iter().find(|b| b.outs.iter().any(|o| o == "loader_probe"));
                            let producer_out = d.builds.first().and_then(|b| b.outs.first().cloned());
                            let mut names: Vec<String> = Vec::new();
                            if let Some(p) = probe {
                                names.extend(p.ins.iter().cloned());
                            }
                            names.extend(producer_out);
                            names.extend(d.defaults.iter().cloned());
                            if names.iter().any(|n| *n != base) {
                                rep.violation("manifest-spellings-different-nodes", &format!("manifest {:?}: the spellings resolve to {:?}, one node {:?} expected", text, names, base), J::obj().with("case", J::i(idx)).with("manifest", J::s(&text)));
                            }
                        }
                    }
                }
            }
        }
    });
}
