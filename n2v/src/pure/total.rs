//! C12: any input is either loaded or rejected with a diagnostic.
use super::manifest::{evaluate, render, Gen};
use super::{count_strings, guarded, input_loop};
use crate::json::J;
use crate::report::Report;
use crate::rng::{fnv, Rng};
use crate::Ctx;
use n2::verif::facade;

thread_local! {
    /// Under Miri an invalid `str` is flagged at once (known finding F15); that run covers UTF-8 inputs only.
    pub static UTF8_ONLY: std::cell::Cell<bool> = const { std::cell::Cell::new(false) };
    pub static DUMP_INPUT: std::cell::Cell<bool> = const { std::cell::Cell::new(false) };
}

pub const TOKENS: [&[u8]; 34] = [
    b"build", b"rule", b"default", b"include", b"subninja", b"pool", b"x", b"out", b"command", b"depth", b" ", b"  ", b"\n", b":", b"|", b"||",
    b"|@", b"=", b"$", b"$ ", b"$\n", b"${", b"}", b"$x", b"#", b"\t", b"\0", b"\r", b"\xc3\xa9", b"\xff", b".", b"..", b"/", b"1",
];

pub fn nth_tokens(mut idx: u64, maxlen: usize) -> Option<Vec<u8>> {
    let k = TOKENS.len() as u64;
    let mut len = 1;
    let mut count = k;
    loop {
        if len > maxlen {
            return None;
        }
        if idx < count {
            break;
        }
        idx -= count;
        len += 1;
        count *= k;
    }
    let mut v = Vec::new();
    for _ in 0..len {
        v.extend_from_slice(TOKENS[(idx % k) as usize]);
        idx /= k;
    }
    Some(v)
}

/// Classify the outcome of loading `bytes` as a manifest.  Returns the parser
/// state reached (for evidence) or a violation (signature, detail).
pub fn check_manifest_bytes(name: &str, bytes: &[u8], from_disk: bool) -> Result<String, (String, String)> {
    if UTF8_ONLY.with(|d| d.get()) && std::str::from_utf8(bytes).is_err() {
        return Ok("skipped:non-utf8".into());
    }
    if DUMP_INPUT.with(|d| d.get()) {
        eprintln!("INPUT ({} bytes): {:?}\nHEX: {}", bytes.len(), String::from_utf8_lossy(bytes), hex(&bytes[..bytes.len().min(4000)]));
    }
    let b = bytes.to_vec();
    let n = name.to_string();
    let res = guarded(move || {
        let r = if from_disk { n2::load::verif_load(&n, None) } else { n2::load::verif_load(&n, Some(b)) };
        r.map(|d| d.builds.len()).map_err(|e| format!("{}", e))
    });
    match res {
        Err(p) => {
            // n2 keeps file contents in `str` without validating them (documented design choice);
            // formatting such a string in a diagnostic can panic inside core::fmt.  Keep that
            // class apart so that any other panic is still reported on its own.
            if std::str::from_utf8(bytes).is_err() && p.contains("library/core/src") {
                Err(("invalid-utf8-input:panic-in-core".into(), format!("loading non-UTF-8 input panicked: {}", p.chars().take(300).collect::<String>())))
            } else {
                Err((format!("panic:{}", crate::sim::panic_sig(&p)), format!("loading panicked: {}", p.chars().take(600).collect::<String>())))
            }
        }
        Ok(Ok(n)) => Ok(format!("loaded:{}", n.min(3))),
        Ok(Err(msg)) => {
            if msg.is_empty() {
                return Err(("empty-diagnostic".into(), "rejected with an empty message".into()));
            }
            if let Some(rest) = msg.strip_prefix("parse error: ") {
                // "<msg>\n<file>:<line>: <context>\n<spaces>^\n"
                let lines: Vec<&str> = rest.split('\n').collect();
                let ok = lines.len() >= 3 && {
                    let loc = lines[lines.len() - 3];
                    let caret = lines[lines.len() - 2];
                    let nlines = bytes.iter().filter(|&&c| c == b'\n').count() + 1;
                    let line_ok = loc
                        .split(": ")
                        .next()
                        .and_then(|fl| fl.rsplit_once(':'))
                        .and_then(|(_, l)| l.parse::<usize>().ok())
                        .map(|l| l >= 1 && (from_disk || l <= nlines))
                        .unwrap_or(false);
                    line_ok && caret.trim_start_matches(' ') == "^" && lines[lines.len() - 1].is_empty()
                };
                if !ok {
                    return Err(("malformed-parse-diagnostic".into(), format!("{:?}", msg)));
                }
                // message class: text up to the first quote (variable parts dropped)
                let first = rest.split('\n').next().unwrap_or("");
                let what: String = first.split(|c| c == '\'' || c == '"').next().unwrap_or("").chars().filter(|c| !c.is_ascii_digit()).take(40).collect();
                Ok(format!("parse-error:{}", what.trim_end()))
            } else {
                // error class: first word, plus the OS error text for read errors
                let first = msg.split_whitespace().next().unwrap_or("");
                let class = if first == "read" {
                    format!("read:{}", msg.rsplit(": ").next().unwrap_or("").chars().filter(|c| c.is_ascii_alphabetic() || *c == ' ').take(30).collect::<String>())
                } else if msg.contains("unknown rule") {
                    "unknown rule".to_string()
                } else if msg.contains("already an output") {
                    "already an output".to_string()
                } else if msg.contains("invalid deps attribute") {
                    "invalid deps attribute".to_string()
                } else {
                    msg.chars().filter(|c| c.is_ascii_alphabetic() || *c == ' ').take(30).collect()
                };
                Ok(format!("error:{}", class))
            }
        }
    }
}

fn mutate(rng: &mut Rng, text: &[u8]) -> Vec<u8> {
    let mut t = text.to_vec();
    let n = rng.range(1, 3);
    for _ in 0..n {
        if t.is_empty() {
            break;
        }
        match rng.below(10) {
            9 => {
                // DOS line endings (this build of n2 has no CRLF support: must be a clean diagnostic)
                let mut u = Vec::with_capacity(t.len() + 16);
                let all = rng.chance(1, 2);
                for &c in t.iter() {
                    if c == b'\n' && (all || rng.chance(1, 4)) {
                        u.push(b'\r');
                    }
                    u.push(c);
                }
                t = u;
            }
            0 => {
                // truncate
                let at = rng.below(t.len() + 1);
                t.truncate(at);
            }
            1 => {
                // delete a range
                let a = rng.below(t.len());
                let b = (a + rng.range(1, 6)).min(t.len());
                t.drain(a..b);
            }
            2 => {
                // duplicate a range
                let a = rng.below(t.len());
                let b = (a + rng.range(1, 12)).min(t.len());
                let seg: Vec<u8> = t[a..b].to_vec();
                let at = rng.below(t.len() + 1);
                for (i, c) in seg.into_iter().enumerate() {
                    t.insert(at + i, c);
                }
            }
            3 => {
                // insert raw bytes
                let at = rng.below(t.len() + 1);
                let raw: &[u8] = *rng.pick(&[&b"\xff"[..], b"\0", b"\r", b"\t", b"$", b"|", b":", b"\xe3\x83", b"=", b"\n ", b"${", b"#"]);
                for (i, c) in raw.iter().enumerate() {
                    t.insert(at + i, *c);
                }
            }
            4 => {
                // swap two bytes
                let a = rng.below(t.len());
                let b = rng.below(t.len());
                t.swap(a, b);
            }
            5 => {
                // drop the final newline
                while t.last() == Some(&b'\n') {
                    t.pop();
                }
            }
            6 => {
                // a very long line with multi-byte characters around a syntax error
                let at = rng.below(t.len() + 1);
                let mut line = Vec::new();
                let unit = *rng.pick(&["é", "ビ", "😀", "a"]);
                for _ in 0..rng.range(10, 400) {
                    line.extend_from_slice(unit.as_bytes());
                }
                line.extend_from_slice(*rng.pick(&[&b" = "[..], b" : ", b"|", b"$", b" "]));
                for _ in 0..rng.range(0, 400) {
                    line.extend_from_slice(unit.as_bytes());
                }
                for (i, c) in line.into_iter().enumerate() {
                    t.insert(at + i, c);
                }
            }
            7 => {
                // deep path
                let at = rng.below(t.len() + 1);
                let n = rng.range(1, 200);
                let comp = *rng.pick(&["a/", "../", "./", "x/../", "b//"]);
                let p: Vec<u8> = comp.repeat(n).into_bytes();
                for (i, c) in p.into_iter().enumerate() {
                    t.insert(at + i, c);
                }
            }
            _ => {
                // empty expansion somewhere
                let at = rng.below(t.len() + 1);
                for (i, c) in b"$undefined_var".iter().enumerate() {
                    t.insert(at + i, *c);
                }
            }
        }
    }
    t
}

pub fn run(ctx: &Ctx, rep: &mut Report) {
    let maxlen = if ctx.thorough() { 5 } else { 4 };
    let nseq = count_strings(TOKENS.len() as u64, maxlen);
    rep.max("max_exhaustive_domain_size", nseq * 2);
    let dir = ctx.scratch.join("t");
    std::fs::create_dir_all(&dir).unwrap();
    std::fs::write(dir.join("x"), b"y = 1\n").unwrap();
    std::env::set_current_dir(&dir).unwrap();
    let mdir = ctx.scratch.join("tm");
    std::fs::create_dir_all(&mdir).unwrap();
    let mut states = std::collections::BTreeSet::new();
    DUMP_INPUT.with(|d| d.set(ctx.only_case.is_some()));
    UTF8_ONLY.with(|d| d.set(ctx.args.iter().any(|a| a == "--utf8-only")));
    input_loop(ctx, rep, nseq * 2, |idx, ex, rep| {
        if ex {
            let Some(mut bytes) = nth_tokens(idx / 2, maxlen) else { return };
            if idx % 2 == 1 {
                bytes.push(b'\n');
            }
            rep.evaluations += 1;
            rep.count("exhaustive_inputs", 1);
            match check_manifest_bytes("build.ninja", &bytes, false) {
                Ok(state) => {
                    if states.insert(state.clone()) {
                        rep.count(&format!("state:{}", state), 1);
                    }
                    // got past the first statement keyword?
                    if state.starts_with("loaded:") || state.contains("expected") || state.contains("unknown rule") {
                        rep.nontrivial.insert(fnv(&bytes));
                    }
                }
                Err((sig, detail)) => rep.violation(&sig, &detail, J::obj().with("case", J::i(idx)).with("input", J::bytes(&bytes)).with("hex", J::s(hex(&bytes)))),
            }
            return;
        }
        let mut rng = Rng::new(crate::rng::mix64(ctx.seed ^ idx.wrapping_mul(0x9e3779b97f4a7c15)));
        match rng.below(10) {
            0 => {
                // raw random bytes
                let n = rng.range(0, 200);
                let pool: &[u8] = b"abr$ {}:|=#\n\n  \t\0\r\xff\xc3\xa9build rule \x80";
                let bytes: Vec<u8> = (0..n).map(|_| *rng.pick(pool)).collect();
                rep.evaluations += 1;
                rep.count("raw_inputs", 1);
                if let Err((sig, detail)) = check_manifest_bytes("build.ninja", &bytes, false) {
                    rep.violation(&sig, &detail, J::obj().with("case", J::i(idx)).with("input", J::bytes(&bytes)).with("hex", J::s(hex(&bytes))));
                }
            }
            1 => {
                // paths as command-line targets / depfile entries reach the canonicaliser directly
                let n = rng.range(0, 200);
                let comp = *rng.pick(&["a/", "../", "./", "x/../", "b//", "é/"]);
                let p = comp.repeat(n);
                rep.evaluations += 1;
                rep.count("path_inputs", 1);
                let pp = p.clone();
                if let Err(m) = guarded(move || n2::canon::to_owned_canon_path(pp)) {
                    rep.violation(&format!("panic:{}", crate::sim::panic_sig(&m)), &format!("canonicalising a {}-component path panicked: {}", n, m), J::obj().with("case", J::i(idx)).with("path", J::s(&p)));
                }
            }
            2 => {
                // depfile bytes
                let n = rng.range(0, 120);
                let pool: &[u8] = b"ab :\\\n\n  \t\0\r\xff/.-_C";
                let bytes: Vec<u8> = (0..n).map(|_| *rng.pick(pool)).collect();
                rep.evaluations += 1;
                rep.count("depfile_inputs", 1);
                let b2 = bytes.clone();
                match guarded(move || facade::parse_depfile_bytes(b2)) {
                    Ok(_) => {}
                    Err(m) => rep.violation(&format!("panic:{}", crate::sim::panic_sig(&m)), &format!("depfile parse panicked: {}", m), J::obj().with("case", J::i(idx)).with("input", J::bytes(&bytes)).with("hex", J::s(hex(&bytes)))),
                }
            }
            3 => {
                // include / subninja of: itself, a cycle, a directory, a missing file
                crate::sim::clear_dir(&mdir);
                let kind = rng.below(5);
                let kw = if rng.chance(1, 2) { "include" } else { "subninja" };
                let (main, other) = match kind {
                    0 => (format!("{} build.ninja\n", kw), None),
                    1 => (format!("{} b.ninja\n", kw), Some(format!("x = 1\n{} build.ninja\n", kw))),
                    2 => (format!("{} .\n", kw), None),
                    3 => (format!("{} missing.ninja\n", kw), None),
                    _ => (format!("{} $nothing\n", kw), None),
                };
                std::fs::write(mdir.join("build.ninja"), main.as_bytes()).unwrap();
                if let Some(o) = &other {
                    std::fs::write(mdir.join("b.ninja"), o.as_bytes()).unwrap();
                }
                std::env::set_current_dir(&mdir).unwrap();
                rep.evaluations += 1;
                rep.count("include_inputs", 1);
                if kind <= 1 {
                    rep.count("include_cycle_inputs", 1);
                }
                let r = check_manifest_bytes("build.ninja", main.as_bytes(), true);
                std::env::set_current_dir(&dir).unwrap();
                if let Err((sig, detail)) = r {
                    rep.violation(&sig, &detail, J::obj().with("case", J::i(idx)).with("input", J::s(&main)).with("other", J::s(other.unwrap_or_default())));
                }
            }
            _ => {
                // mutation of a valid manifest
                let am = Gen::new(&mut rng, "C10").gen();
                if evaluate(&am, true).reject.is_some() {
                    return;
                }
                let r = render(&am, &mut rng, false);
                let text = r.files[0].1.as_bytes();
                let bytes = mutate(&mut rng, text);
                rep.evaluations += 1;
                rep.count("mutated_inputs", 1);
                // included files (if any) are written next to it
                let multi = r.files.len() > 1;
                if multi {
                    crate::sim::clear_dir(&mdir);
                    for (n, t) in &r.files[1..] {
                        std::fs::write(mdir.join(n), t.as_bytes()).unwrap();
                    }
                    std::fs::write(mdir.join("build.ninja"), &bytes).unwrap();
                    std::env::set_current_dir(&mdir).unwrap();
                }
                let res = check_manifest_bytes("build.ninja", &bytes, multi);
                if multi {
                    std::env::set_current_dir(&dir).unwrap();
                }
                match res {
                    Ok(state) => {
                        if states.insert(state.clone()) {
                            rep.count(&format!("state:{}", state), 1);
                        }
                        rep.nontrivial.insert(fnv(&bytes));
                        rep.sample(|| J::obj().with("case", J::i(idx)).with("input", J::bytes(&bytes)).with("outcome", J::s(&state)));
                    }
                    Err((sig, detail)) => rep.violation(&sig, &detail, J::obj().with("case", J::i(idx)).with("input", J::bytes(&bytes)).with("hex", J::s(hex(&bytes[..bytes.len().min(2000)])))),
                }
            }
        }
    });
    rep.count("distinct_parser_outcomes", states.len() as u64);
}

fn hex(b: &[u8]) -> String {
    b.iter().map(|c| format!("{:02x}", c)).collect()
}
