//! C10 / C11 / C14: abstract manifests, their concrete spellings, and a
//! reference evaluator written from the property statements (DESIGN.md A3/A4).
use super::{guarded, input_loop};
use crate::ap::canon_ref;
use crate::json::J;
use crate::report::Report;
use crate::rng::{fnv, fnv_combine, Rng};
use crate::Ctx;
use n2::verif::GraphDump;
use std::collections::BTreeMap;

#[derive(Clone, Debug, PartialEq)]
pub enum Part {
    Lit(String),
    Ref(String),
}
pub type Ev = Vec<Part>;

#[derive(Clone, Debug)]
pub enum Stmt {
    Var(String, Ev),
    Rule { name: String, binds: Vec<(String, Ev)> },
    Build { outs: Vec<Ev>, iouts: Vec<Ev>, rule: String, ins: Vec<Ev>, imps: Vec<Ev>, oos: Vec<Ev>, vals: Vec<Ev>, binds: Vec<(String, Ev)> },
    Default(Vec<Ev>),
    Pool { name: String, depth: usize },
    Include(usize),
    Subninja(usize),
}

#[derive(Clone, Debug)]
pub struct AM {
    /// files[0] is the main manifest
    pub files: Vec<(String, Vec<Stmt>)>,
}

#[derive(Clone, Debug, PartialEq, Default)]
pub struct EBuild {
    pub outs: Vec<String>,
    pub explicit_outs: usize,
    pub ins: Vec<String>,
    pub explicit_ins: usize,
    pub implicit_ins: usize,
    pub order_only_ins: usize,
    pub cmdline: Option<String>,
    pub desc: Option<String>,
    pub depfile: Option<String>,
    pub msvc: bool,
    pub rspfile: Option<(String, String)>,
    pub pool: Option<String>,
    pub hide_success: bool,
    pub hide_progress: bool,
}

#[derive(Clone, Debug, PartialEq, Default)]
pub struct Expected {
    pub builds: Vec<EBuild>,
    pub defaults: Vec<String>,
    pub pools: Vec<(String, usize)>,
    pub builddir: Option<String>,
    /// Some(reason) when the manifest must be rejected
    pub reject: Option<String>,
}

// ---------------------------------------------------------------- evaluator

enum Bound<'a> {
    Val(String),
    Raw(&'a Ev),
}

trait Env {
    fn get(&self, name: &str) -> Option<Bound<'_>>;
}

struct Scope(BTreeMap<String, String>);
impl Env for Scope {
    fn get(&self, name: &str) -> Option<Bound<'_>> {
        self.0.get(name).map(|s| Bound::Val(s.clone()))
    }
}
struct Block<'a>(&'a [(String, Ev)]);
impl<'a> Env for Block<'a> {
    fn get(&self, name: &str) -> Option<Bound<'_>> {
        // a later binding of the same name in one block replaces the earlier one
        self.0.iter().rev().find(|(k, _)| k == name).map(|(_, v)| Bound::Raw(v))
    }
}
struct IO {
    ins: Vec<String>,
    outs: Vec<String>,
}
impl Env for IO {
    fn get(&self, name: &str) -> Option<Bound<'_>> {
        match name {
            "in" => Some(Bound::Val(self.ins.join(" "))),
            "in_newline" => Some(Bound::Val(self.ins.join("\n"))),
            "out" => Some(Bound::Val(self.outs.join(" "))),
            "out_newline" => Some(Bound::Val(self.outs.join("\n"))),
            _ => None,
        }
    }
}

fn expand(ev: &Ev, envs: &[&dyn Env]) -> String {
    let mut out = String::new();
    for p in ev {
        match p {
            Part::Lit(s) => out.push_str(s),
            Part::Ref(x) => {
                for (i, e) in envs.iter().enumerate() {
                    if let Some(b) = e.get(x) {
                        match b {
                            Bound::Val(s) => out.push_str(&s),
                            Bound::Raw(ev2) => out.push_str(&expand(ev2, &envs[i + 1..])),
                        }
                        break;
                    }
                }
            }
        }
    }
    out
}

struct EvalState {
    rules: BTreeMap<String, Vec<(String, Ev)>>,
    exp: Expected,
    producers: BTreeMap<String, usize>,
    /// include (true) shares the scope; when false, mimic a copy (used to classify F7)
    include_shares: bool,
}

fn walk(am: &AM, file: usize, scope: &mut Scope, st: &mut EvalState, depth: usize) {
    if depth > 8 || st.exp.reject.is_some() {
        return;
    }
    for s in &am.files[file].1 {
        if st.exp.reject.is_some() {
            return;
        }
        match s {
            Stmt::Var(name, ev) => {
                let v = expand(ev, &[&*scope]);
                scope.0.insert(name.clone(), v);
            }
            Stmt::Rule { name, binds } => {
                st.rules.insert(name.clone(), binds.clone());
            }
            Stmt::Pool { name, depth } => {
                match st.exp.pools.iter_mut().find(|(n, _)| n == name) {
                    Some(p) => p.1 = *depth,
                    None => st.exp.pools.push((name.clone(), *depth)),
                }
            }
            Stmt::Default(paths) => {
                for p in paths {
                    let v = expand(p, &[&*scope]);
                    if v.is_empty() {
                        st.exp.reject = Some("empty path".into());
                        return;
                    }
                    st.exp.defaults.push(canon_ref(&v));
                }
            }
            Stmt::Include(f) => {
                if st.include_shares {
                    walk(am, *f, scope, st, depth + 1);
                } else {
                    let mut copy = Scope(scope.0.clone());
                    walk(am, *f, &mut copy, st, depth + 1);
                }
            }
            Stmt::Subninja(f) => {
                let mut copy = Scope(scope.0.clone());
                walk(am, *f, &mut copy, st, depth + 1);
            }
            Stmt::Build { outs, iouts, rule, ins, imps, oos, vals, binds } => {
                let block = Block(binds);
                let path_envs: [&dyn Env; 2] = [&block, &*scope];
                let mut ev_paths = |list: &Vec<Ev>, st: &mut EvalState| -> Vec<String> {
                    list.iter()
                        .map(|p| {
                            let v = expand(p, &path_envs);
                            if v.is_empty() {
                                st.exp.reject = Some("empty path".into());
                                return String::new();
                            }
                            canon_ref(&v)
                        })
                        .collect()
                };
                let e_ins = ev_paths(ins, st);
                let e_imps = ev_paths(imps, st);
                let e_oos = ev_paths(oos, st);
                let e_vals = ev_paths(vals, st);
                let e_outs = ev_paths(outs, st);
                let e_iouts = ev_paths(iouts, st);
                if st.exp.reject.is_some() {
                    return;
                }
                let Some(rb) = (if rule == "phony" && !st.rules.contains_key("phony") { Some(Vec::new()) } else { st.rules.get(rule).cloned() }) else {
                    st.exp.reject = Some(format!("unknown rule {:?}", rule));
                    return;
                };
                let io = IO { ins: e_ins.clone(), outs: e_outs.clone() };
                let rblock = Block(&rb);
                let attr = |key: &str| -> Option<String> {
                    if let Some(Bound::Raw(ev)) = block.get(key) {
                        return Some(expand(ev, &[&*scope]));
                    }
                    if let Some(Bound::Raw(ev)) = rblock.get(key) {
                        return Some(expand(ev, &[&io, &block, &*scope]));
                    }
                    None
                };
                let mut b = EBuild::default();
                b.cmdline = attr("command");
                b.desc = attr("description");
                b.depfile = attr("depfile");
                match attr("deps").as_deref() {
                    None | Some("gcc") => {}
                    Some("msvc") => b.msvc = true,
                    Some(o) => {
                        st.exp.reject = Some(format!("invalid deps attribute {:?}", o));
                        return;
                    }
                }
                b.pool = attr("pool");
                match (attr("rspfile"), attr("rspfile_content")) {
                    (None, None) => {}
                    (Some(p), Some(c)) => b.rspfile = Some((p, c)),
                    _ => {
                        st.exp.reject = Some("rspfile and rspfile_content need to be both specified".into());
                        return;
                    }
                }
                b.hide_success = attr("hide_success").is_some();
                b.hide_progress = attr("hide_progress").is_some();
                // outputs: each once, in first-occurrence order, explicit iff it first occurred in the explicit section
                let idx = st.exp.builds.len();
                let mut all: Vec<String> = Vec::new();
                let mut nexp = 0;
                for (i, o) in e_outs.iter().chain(e_iouts.iter()).enumerate() {
                    if all.contains(o) {
                        continue;
                    }
                    if let Some(&prev) = st.producers.get(o) {
                        if prev != idx {
                            st.exp.reject = Some(format!("{:?} is already an output", o));
                            return;
                        }
                    }
                    all.push(o.clone());
                    if i < e_outs.len() {
                        nexp += 1;
                    }
                }
                for o in &all {
                    st.producers.insert(o.clone(), idx);
                }
                b.outs = all;
                b.explicit_outs = nexp;
                b.explicit_ins = e_ins.len();
                b.implicit_ins = e_imps.len();
                b.order_only_ins = e_oos.len();
                b.ins = e_ins.into_iter().chain(e_imps).chain(e_oos).chain(e_vals).collect();
                st.exp.builds.push(b);
            }
        }
    }
}

pub fn evaluate(am: &AM, include_shares: bool) -> Expected {
    let mut scope = Scope(BTreeMap::new());
    let mut st = EvalState { rules: BTreeMap::new(), exp: Expected::default(), producers: BTreeMap::new(), include_shares };
    walk(am, 0, &mut scope, &mut st, 0);
    st.exp.builddir = scope.0.get("builddir").cloned();
    st.exp
}

// ---------------------------------------------------------------- renderer

pub struct Rendered {
    pub files: Vec<(String, String)>,
    /// for each build statement in parse order: (file, first line, last line)
    pub build_lines: Vec<(String, usize, usize)>,
    pub spelling_hash: u64,
}

/// byte index of the character after the one starting at byte index `ci`
fn ci_next(s: &str, ci: usize) -> usize {
    ci + s[ci..].chars().next().map(|c| c.len_utf8()).unwrap_or(0)
}

fn name_char(c: char) -> bool {
    c.is_ascii_alphanumeric() || c == '_' || c == '-'
}

struct R<'a> {
    rng: &'a mut Rng,
    plain: bool,
}

impl<'a> R<'a> {
    fn sp(&mut self, lo: usize, hi: usize) -> String {
        if self.plain {
            return " ".repeat(lo.max(if hi > 0 { 1.min(hi) } else { 0 }).max(lo));
        }
        " ".repeat(self.rng.range(lo, hi))
    }
    /// whitespace between tokens: at least `min` spaces, possibly with a continuation after a space
    fn gap(&mut self, min: usize) -> String {
        if self.plain {
            return " ".repeat(min);
        }
        let mut s = " ".repeat(self.rng.range(min, min + 2));
        if !s.is_empty() && self.rng.chance(1, 6) {
            // one continuation, sometimes several in a row (a wrapped list with an entry blanked out)
            let n = if self.rng.chance(1, 3) { self.rng.range(2, 3) } else { 1 };
            for _ in 0..n {
                s.push_str("$\n");
                s.push_str(&" ".repeat(self.rng.range(0, 6)));
            }
        }
        s
    }
    fn ev(&mut self, ev: &Ev, path: bool) -> String {
        let mut out = String::new();
        for (i, p) in ev.iter().enumerate() {
            match p {
                Part::Lit(s) => {
                    for (ci, c) in s.char_indices() {
                        match c {
                            '$' => out.push_str("$$"),
                            ' ' if path => out.push_str("$ "),
                            ':' if path => out.push_str("$:"),
                            ' ' if !path && i == 0 && ci == 0 => out.push_str("$ "),
                            c => out.push(c),
                        }
                        // a continuation inside a value joins the two halves (spaces after
                        // it are indentation, so never split right before a space)
                        let next_is_space_or_end = s[ci_next(s, ci)..].chars().next().map(|n| n == ' ').unwrap_or(true);
                        if !self.plain && !path && !next_is_space_or_end && self.rng.chance(1, 40) {
                            out.push_str("$\n");
                            out.push_str(&" ".repeat(self.rng.range(0, 5)));
                        }
                    }
                }
                Part::Ref(x) => {
                    let next_extends = match ev.get(i + 1) {
                        Some(Part::Lit(s)) => s.chars().next().map(name_char).unwrap_or(false),
                        _ => false,
                    };
                    let simple_ok = x.chars().all(name_char) && !next_extends;
                    if simple_ok && (self.plain || self.rng.chance(1, 2)) {
                        out.push('$');
                        out.push_str(x);
                    } else {
                        out.push_str("${");
                        out.push_str(x);
                        out.push('}');
                    }
                }
            }
        }
        out
    }
    fn binds(&mut self, binds: &[(String, Ev)], t: &mut String) {
        let indent = if self.plain { 2 } else { self.rng.range(1, 8) };
        for (k, v) in binds {
            t.push_str(&" ".repeat(indent));
            t.push_str(k);
            t.push_str(&self.sp(0, 2));
            t.push('=');
            if v.is_empty() {
                t.push_str(&self.sp(0, 2));
            } else {
                t.push_str(&self.sp(0, 3));
                t.push_str(&self.ev(v, false));
            }
            t.push('\n');
        }
    }
    fn noise(&mut self, t: &mut String) {
        if self.plain {
            return;
        }
        while self.rng.chance(1, 4) {
            if self.rng.chance(1, 2) {
                t.push('\n');
            } else {
                t.push_str("# comment: build x$ y | z\n");
            }
        }
    }
}

pub fn render(am: &AM, rng: &mut Rng, plain: bool) -> Rendered {
    let mut r = R { rng, plain };
    let mut files = Vec::new();
    let mut lines_by_file: Vec<Vec<(usize, usize)>> = Vec::new();
    for (name, stmts) in &am.files {
        let mut t = String::new();
        let mut blines = Vec::new();
        for s in stmts {
            r.noise(&mut t);
            match s {
                Stmt::Var(n, ev) => {
                    t.push_str(n);
                    t.push_str(&r.sp(0, 2));
                    t.push('=');
                    if !ev.is_empty() {
                        t.push_str(&r.sp(0, 3));
                        t.push_str(&r.ev(ev, false));
                    }
                    t.push('\n');
                }
                Stmt::Rule { name, binds } => {
                    t.push_str("rule");
                    t.push_str(&r.gap(1));
                    t.push_str(name);
                    t.push('\n');
                    r.binds(binds, &mut t);
                }
                Stmt::Pool { name, depth } => {
                    t.push_str("pool");
                    t.push_str(&r.gap(1));
                    t.push_str(name);
                    t.push('\n');
                    let indent = if r.plain { 2 } else { r.rng.range(1, 6) };
                    t.push_str(&format!("{}depth{}={}{}\n", " ".repeat(indent), r.sp(0, 2), r.sp(0, 2), depth));
                }
                Stmt::Default(paths) => {
                    t.push_str("default");
                    for p in paths {
                        t.push_str(&r.gap(1));
                        t.push_str(&r.ev(p, true));
                    }
                    t.push_str(&r.gap(0));
                    t.push('\n');
                }
                Stmt::Include(f) | Stmt::Subninja(f) => {
                    t.push_str(if matches!(s, Stmt::Include(_)) { "include" } else { "subninja" });
                    t.push_str(&r.gap(1));
                    t.push_str(&r.ev(&vec![Part::Lit(am.files[*f].0.clone())], true));
                    t.push('\n');
                }
                Stmt::Build { outs, iouts, rule, ins, imps, oos, vals, binds } => {
                    let first = t.matches('\n').count() + 1;
                    t.push_str("build");
                    for p in outs {
                        t.push_str(&r.gap(1));
                        t.push_str(&r.ev(p, true));
                    }
                    if !iouts.is_empty() {
                        t.push_str(&r.gap(0));
                        t.push('|');
                        for (i, p) in iouts.iter().enumerate() {
                            t.push_str(&r.gap(if i == 0 { 0 } else { 1 }));
                            t.push_str(&r.ev(p, true));
                        }
                    }
                    t.push_str(&r.gap(0));
                    t.push(':');
                    t.push_str(&r.gap(0));
                    t.push_str(rule);
                    for p in ins {
                        t.push_str(&r.gap(1));
                        t.push_str(&r.ev(p, true));
                    }
                    for (sep, list) in [("|", imps), ("||", oos), ("|@", vals)] {
                        if list.is_empty() {
                            continue;
                        }
                        t.push_str(&r.gap(if rule.is_empty() { 1 } else { 0 }));
                        t.push_str(sep);
                        for (i, p) in list.iter().enumerate() {
                            t.push_str(&r.gap(if i == 0 { 0 } else { 1 }));
                            t.push_str(&r.ev(p, true));
                        }
                    }
                    t.push_str(&r.gap(0));
                    t.push('\n');
                    r.binds(binds, &mut t);
                    let last = t.matches('\n').count();
                    blines.push((first, last));
                }
            }
        }
        r.noise(&mut t);
        files.push((name.clone(), t));
        lines_by_file.push(blines);
    }
    // build statements in parse order (includes are expanded in place)
    let mut build_lines = Vec::new();
    fn order(am: &AM, f: usize, lines: &Vec<Vec<(usize, usize)>>, out: &mut Vec<(String, usize, usize)>, depth: usize) {
        if depth > 8 {
            return;
        }
        let mut k = 0;
        for s in &am.files[f].1 {
            match s {
                Stmt::Build { .. } => {
                    let (a, b) = lines[f][k];
                    out.push((am.files[f].0.clone(), a, b));
                    k += 1;
                }
                Stmt::Include(g) | Stmt::Subninja(g) => order(am, *g, lines, out, depth + 1),
                _ => {}
            }
        }
    }
    order(am, 0, &lines_by_file, &mut build_lines, 0);
    let mut h = fnv(b"spelling");
    for (_, t) in &files {
        h = fnv_combine(h, fnv(t.as_bytes()));
    }
    Rendered { files, build_lines, spelling_hash: h }
}

// ---------------------------------------------------------------- generator

pub struct Gen<'a> {
    pub rng: &'a mut Rng,
    pub prop: &'a str,
    counter: usize,
    /// nesting depth of subninja files being generated
    in_subninja: usize,
    /// rule names redeclared inside a subninja file (ambiguous afterwards: dropped from use)
    shadowed: Vec<String>,
}

const NAME_POOL: [&str; 21] = ["a", "b.o", "src/x.c", "dir/sub/y", "é", "日本.txt", "sp ace", "co:lon", "do$lar", "with-dash_1", "../up/f", "./dot/g", "a//b", "q/../r", "w\\in\\x", "w\\.\\y", "m/ix\\ed", "/abs/p", "//abs2/q", "/\\abs3", "//./abs4/../r"];
const VAR_NAMES: [&str; 7] = ["a", "b", "flags", "dir", "x_1", "v.dot", "opt-level"];

impl<'a> Gen<'a> {
    pub fn new(rng: &'a mut Rng, prop: &'a str) -> Gen<'a> {
        Gen { rng, prop, counter: 0, in_subninja: 0, shadowed: Vec::new() }
    }

    /// a variable name; for C11 sometimes one that is spelled like a magic variable ($in, $out, ...):
    /// those are ordinary names in file scope and build blocks, and must lose against the magic
    /// ones inside a rule's bindings even when the step has no explicit inputs/outputs
    fn var_name(&mut self) -> String {
        if self.prop == "C11" && self.rng.chance(1, 6) {
            // `builddir` is the one variable n2 itself looks up (in the top-level scope when loading ends):
            // bound in an included file it counts, bound in a subninja file or a build block it does not
            return (*self.rng.pick(&["in", "out", "in_newline", "out_newline", "builddir", "builddir"])).to_string();
        }
        self.rng.pick(&VAR_NAMES[..]).to_string()
    }

    fn fresh_out(&mut self) -> Ev {
        self.counter += 1;
        let deco = *self.rng.pick(&["", "", "o/", "sp ace/", "é/", "c:/", "$/", "bs\\"]);
        let mut parts = vec![Part::Lit(format!("{}out{}", deco.replace('$', "do$lar"), self.counter))];
        if self.rng.chance(1, 5) {
            parts.insert(0, Part::Ref("dir".into()));
        }
        if self.rng.chance(1, 8) {
            parts.push(Part::Ref("a".into()));
        }
        parts
    }

    fn in_path(&mut self, known_outs: &[Ev]) -> Ev {
        if !known_outs.is_empty() && self.rng.chance(1, 3) {
            return self.rng.pick(known_outs).clone();
        }
        let n = *self.rng.pick(&NAME_POOL[..]);
        let mut parts = vec![Part::Lit(n.to_string())];
        if self.rng.chance(1, 6) {
            parts.insert(0, Part::Ref(self.rng.pick(&VAR_NAMES[..]).to_string()));
            parts.insert(1, Part::Lit("/".into()));
        }
        parts
    }

    fn value(&mut self, allow_io: bool) -> Ev {
        let n = self.rng.range(0, 4);
        let mut v = Vec::new();
        for _ in 0..n {
            match self.rng.below(if allow_io { 6 } else { 4 }) {
                0 | 1 => {
                    let w = *self.rng.pick(&["cc", "-o", " ", "x y", "é", "#nocomment", "a:b", "$", "|", "-I", "\"q\"", "  two"]);
                    // literal parts must not start a value with spaces that would be eaten
                    v.push(Part::Lit(w.to_string()));
                }
                2 | 3 => {
                    let n = self.var_name();
                    v.push(Part::Ref(n))
                }
                4 => v.push(Part::Ref((*self.rng.pick(&["in", "out", "in_newline", "out_newline"])).to_string())),
                _ => v.push(Part::Lit(" ".into())),
            }
        }
        // merge adjacent literals (the parser would see them as one)
        let mut m: Ev = Vec::new();
        for p in v {
            match (m.last_mut(), &p) {
                (Some(Part::Lit(a)), Part::Lit(b)) => a.push_str(b),
                _ => m.push(p),
            }
        }
        // values lose leading whitespace in the syntax itself; keep generator values free of it
        if let Some(Part::Lit(s)) = m.first_mut() {
            let t = s.trim_start().to_string();
            *s = t;
            if s.is_empty() {
                m.remove(0);
            }
        }
        // trailing spaces are kept by the parser, but avoid them (editors strip them)
        if let Some(Part::Lit(s)) = m.last_mut() {
            let t = s.trim_end().to_string();
            *s = t;
            if s.is_empty() {
                m.pop();
            }
        }
        m
    }

    fn file_stmts(&mut self, am: &mut AM, depth: usize, rules: &mut Vec<String>, outs: &mut Vec<Ev>, nstmts: usize) -> Vec<Stmt> {
        let mut v = Vec::new();
        let c11 = self.prop == "C11";
        for _ in 0..nstmts {
            let k = self.rng.below(if c11 { 12 } else { 10 });
            match k {
                0 | 10 | 11 => {
                    let n = self.var_name();
                    let mut val = self.value(false);
                    if self.rng.chance(1, 4) {
                        // self reference: x = ${x}y
                        val.insert(0, Part::Ref(n.clone()));
                    }
                    if n == "dir" {
                        // used as a path prefix: keep it path-like and non-empty
                        val = vec![Part::Lit((*self.rng.pick(&["d", "d/e", "./d", "é"])).to_string())];
                    }
                    v.push(Stmt::Var(n, val));
                }
                1 | 2 => {
                    self.counter += 1;
                    let mut name = format!("r{}{}", self.counter, self.rng.pick(&["", ".x", "-y", "_z"]));
                    // inside a subninja file a rule may reuse a name known from outside (it is that file's
                    // own rule from then on; callers forget the name once the file ends)
                    if self.in_subninja > 0 && !rules.is_empty() && self.rng.chance(1, 3) {
                        name = self.rng.pick(rules).clone();
                        self.shadowed.push(name.clone());
                    }
                    let mut binds = vec![("command".to_string(), {
                        let mut c = self.value(true);
                        c.insert(0, Part::Lit(format!("run{} ", self.counter)));
                        c
                    })];
                    if self.rng.chance(1, 3) {
                        binds.push(("description".into(), self.value(true)));
                    }
                    if self.rng.chance(1, 5) {
                        binds.push(("depfile".into(), vec![Part::Ref("out".into()), Part::Lit(".d".into())]));
                    }
                    if self.rng.chance(1, 6) {
                        binds.push(("deps".into(), vec![Part::Lit((*self.rng.pick(&["gcc", "msvc"])).to_string())]));
                    }
                    if self.rng.chance(1, 6) {
                        binds.push(("rspfile".into(), vec![Part::Ref("out".into()), Part::Lit(".rsp".into())]));
                        binds.push(("rspfile_content".into(), self.value(true)));
                    }
                    if self.rng.chance(1, 6) {
                        binds.push(("pool".into(), vec![Part::Lit((*self.rng.pick(&["p1", "console", "p2"])).to_string())]));
                    }
                    if self.rng.chance(1, 10) {
                        binds.push(("hide_success".into(), vec![Part::Lit("1".into())]));
                    }
                    if self.rng.chance(1, 10) {
                        binds.push(("restat".into(), vec![Part::Lit("1".into())]));
                    }
                    self.rng.shuffle(&mut binds);
                    rules.push(name.clone());
                    v.push(Stmt::Rule { name, binds });
                }
                3..=6 => {
                    let rule = if rules.is_empty() || self.rng.chance(1, 6) { "phony".to_string() } else { self.rng.pick(rules).clone() };
                    let nouts = self.rng.range(1, 3);
                    let o: Vec<Ev> = (0..nouts).map(|_| self.fresh_out()).collect();
                    let nio = if self.rng.chance(1, 3) { self.rng.range(1, 2) } else { 0 };
                    let io: Vec<Ev> = (0..nio).map(|_| self.fresh_out()).collect();
                    let sect = |g: &mut Gen, p: usize, outs: &Vec<Ev>| -> Vec<Ev> {
                        if g.rng.chance(p, 4) {
                            let n = g.rng.range(1, 3);
                            (0..n).map(|_| g.in_path(outs)).collect()
                        } else {
                            vec![]
                        }
                    };
                    let ins = sect(self, 3, outs);
                    let imps = sect(self, 1, outs);
                    let oos = sect(self, 1, outs);
                    let vals = sect(self, 1, outs);
                    let mut binds = Vec::new();
                    if self.rng.chance(if c11 { 3 } else { 1 }, 4) {
                        let nb = self.rng.range(1, 3);
                        for _ in 0..nb {
                            let n = self.var_name();
                            if n == "dir" {
                                continue;
                            }
                            let mut val = self.value(false);
                            if self.rng.chance(1, 4) {
                                val.insert(0, Part::Ref(n.clone()));
                            }
                            binds.push((n, val));
                        }
                    }
                    if self.rng.chance(1, 6) {
                        binds.push(("description".into(), self.value(false)));
                    }
                    if c11 && self.rng.chance(1, 8) && rule != "phony" {
                        binds.push(("command".into(), self.value(false)));
                    }
                    outs.extend(o.iter().cloned());
                    outs.extend(io.iter().cloned());
                    v.push(Stmt::Build { outs: o, iouts: io, rule, ins, imps, oos, vals, binds });
                }
                7 => {
                    if !outs.is_empty() {
                        let n = self.rng.range(1, 2);
                        let d = (0..n).map(|_| self.rng.pick(outs).clone()).collect();
                        v.push(Stmt::Default(d));
                    }
                }
                8 => {
                    self.counter += 1;
                    v.push(Stmt::Pool { name: format!("p{}", self.rng.range(1, 3)), depth: self.rng.below(5) });
                }
                _ => {
                    if depth < 3 && am.files.len() < 5 && self.rng.chance(if c11 { 3 } else { 1 }, 3) {
                        let idx = am.files.len();
                        let as_include = self.rng.chance(1, 2);
                        let rules_before = rules.len();
                        let fname = format!("{}{}.ninja", if self.rng.chance(1, 3) { "sub/" } else { "" }, ["inc", "more", "child", "x y"][idx % 4]);
                        let fname = format!("{}{}", idx, fname).replace("sub/", "");
                        am.files.push((fname, vec![]));
                        let n = self.rng.range(1, 5);
                        if !as_include {
                            self.in_subninja += 1;
                        }
                        let child = self.file_stmts(am, depth + 1, rules, outs, n);
                        am.files[idx].1 = child;
                        if as_include {
                            v.push(Stmt::Include(idx));
                        } else {
                            self.in_subninja -= 1;
                            // rules defined inside a subninja are not relied upon afterwards,
                            // and names it redeclared are no longer used either
                            rules.truncate(rules_before);
                            let sh = std::mem::take(&mut self.shadowed);
                            rules.retain(|r| !sh.contains(r));
                            v.push(Stmt::Subninja(idx));
                        }
                    }
                }
            }
        }
        v
    }

    pub fn gen(&mut self) -> AM {
        let mut am = AM { files: vec![("build.ninja".into(), vec![])] };
        let mut rules = Vec::new();
        let mut outs = Vec::new();
        let n = self.rng.range(1, 12);
        // a `dir` binding first so that ${dir}-prefixed paths are never empty
        let mut stmts = vec![Stmt::Var("dir".into(), vec![Part::Lit("d0".into())])];
        if self.rng.chance(1, 4) {
            stmts.push(Stmt::Var("builddir".into(), vec![Part::Lit((*self.rng.pick(&["bd", "out/dir", "é"])).to_string())]));
        }
        stmts.extend(self.file_stmts(&mut am, 0, &mut rules, &mut outs, n));
        am.files[0].1 = stmts;
        if self.rng.chance(1, 5) {
            // the template idiom: one file of bindings pulled in from several places (twice from one
            // file, or from two files that are themselves included: a diamond), by include or subninja
            let idx = am.files.len();
            let nv = self.rng.range(1, 3);
            let mut t = Vec::new();
            for _ in 0..nv {
                let n = self.var_name();
                if n == "dir" {
                    continue;
                }
                let v = self.value(false);
                t.push(Stmt::Var(n, v));
            }
            am.files.push(("9tmpl.ninja".to_string(), t));
            for _ in 0..self.rng.range(2, 3) {
                let f = self.rng.below(idx);
                let at = self.rng.range(if f == 0 { 1 } else { 0 }, am.files[f].1.len());
                let st = if self.rng.chance(2, 3) { Stmt::Include(idx) } else { Stmt::Subninja(idx) };
                am.files[f].1.insert(at, st);
            }
        }
        am
    }
}

pub fn am_hash(am: &AM) -> u64 {
    fnv(format!("{:?}", am).as_bytes())
}

// ---------------------------------------------------------------- comparison

pub fn dump_builds(d: &GraphDump) -> Vec<EBuild> {
    d.builds
        .iter()
        .map(|b| EBuild {
            outs: b.outs.clone(),
            explicit_outs: b.explicit_outs,
            ins: b.ins.clone(),
            explicit_ins: b.explicit_ins,
            implicit_ins: b.implicit_ins,
            order_only_ins: b.order_only_ins,
            cmdline: b.cmdline.clone(),
            desc: b.desc.clone(),
            depfile: b.depfile.clone(),
            msvc: b.parse_showincludes,
            rspfile: b.rspfile.clone(),
            pool: b.pool.clone(),
            hide_success: b.hide_success,
            hide_progress: b.hide_progress,
        })
        .collect()
}

pub fn first_difference(exp: &Expected, d: &GraphDump) -> Option<String> {
    let got = dump_builds(d);
    if got.len() != exp.builds.len() {
        return Some(format!("{} build statements loaded, {} declared", got.len(), exp.builds.len()));
    }
    for (i, (g, e)) in got.iter().zip(exp.builds.iter()).enumerate() {
        if g != e {
            return Some(format!("build #{}: loaded {:?}\n  declared {:?}", i, g, e));
        }
    }
    if d.defaults != exp.defaults {
        return Some(format!("defaults: loaded {:?}, declared {:?}", d.defaults, exp.defaults));
    }
    if d.pools != exp.pools {
        return Some(format!("pools: loaded {:?}, declared {:?}", d.pools, exp.pools));
    }
    if d.builddir != exp.builddir {
        return Some(format!("builddir: loaded {:?}, declared {:?}", d.builddir, exp.builddir));
    }
    None
}

/// Write the rendered files under `dir` and load the main one through n2.
pub fn load_rendered(dir: &std::path::Path, r: &Rendered) -> Result<Result<GraphDump, String>, String> {
    crate::sim::clear_dir(dir);
    for (name, text) in &r.files {
        let p = dir.join(name);
        if let Some(parent) = p.parent() {
            let _ = std::fs::create_dir_all(parent);
        }
        std::fs::write(p, text.as_bytes()).map_err(|e| e.to_string())?;
    }
    std::env::set_current_dir(dir).map_err(|e| e.to_string())?;
    let main = r.files[0].0.clone();
    let single = r.files.len() == 1;
    let text = r.files[0].1.clone();
    guarded(move || {
        let res = if single { n2::load::verif_load(&main, Some(text.into_bytes())) } else { n2::load::verif_load(&main, None) };
        res.map_err(|e| format!("{}", e))
    })
}

fn am_json(am: &AM, r: &Rendered) -> J {
    let _ = am;
    J::obj().with("files", J::Arr(r.files.iter().map(|(n, t)| J::Arr(vec![J::s(n), J::s(t)])).collect()))
}

pub fn run(ctx: &Ctx, rep: &mut Report) {
    let dir = ctx.scratch.join("m");
    std::fs::create_dir_all(&dir).unwrap();
    match ctx.prop.as_str() {
        "C14" => super::manifest_dups::run(ctx, rep, &dir),
        _ => run_roundtrip(ctx, rep, &dir),
    }
}

fn run_roundtrip(ctx: &Ctx, rep: &mut Report, dir: &std::path::Path) {
    let prop = ctx.prop.clone();
    let spellings = if ctx.thorough() { 8 } else { 4 };
    input_loop(ctx, rep, 0, |idx, _ex, rep| {
        let mut rng = Rng::new(crate::rng::mix64(ctx.seed ^ idx.wrapping_mul(0x9e3779b97f4a7c15) ^ fnv(prop.as_bytes())));
        let am = Gen::new(&mut rng, &prop).gen();
        let exp = evaluate(&am, true);
        if exp.reject.is_some() {
            rep.count("generated_rejectable", 1);
            return;
        }
        let amh = am_hash(&am);
        let mut first_dump: Option<Vec<EBuild>> = None;
        // non-triviality
        let mut nontrivial = false;
        for (_, stmts) in &am.files {
            for s in stmts {
                if let Stmt::Build { ins, imps, oos, vals, outs, iouts, binds, .. } = s {
                    let sections = [ins, imps, oos, vals].iter().filter(|l| !l.is_empty()).count();
                    let esc = outs.iter().chain(iouts.iter()).chain(ins.iter()).any(|e| e.iter().any(|p| matches!(p, Part::Lit(s) if s.contains(' ') || s.contains(':') || s.contains('$'))));
                    if prop == "C10" && (sections >= 2 || esc) {
                        nontrivial = true;
                    }
                    if prop == "C11" && !binds.is_empty() {
                        nontrivial = true;
                    }
                }
            }
        }
        for k in 0..spellings {
            let r = render(&am, &mut rng, k == 0);
            rep.evaluations += 1;
            let case = || J::obj().with("case", J::i(idx)).with("spelling", J::i(k)).with("manifest", am_json(&am, &r));
            match load_rendered(dir, &r) {
                Err(p) => {
                    rep.violation(&format!("panic:{}", crate::sim::panic_sig(&p)), &format!("loading panicked: {}", p), case());
                    return;
                }
                Ok(Err(e)) => {
                    rep.violation("valid-manifest-rejected", &format!("n2 rejects a manifest in its supported syntax: {}", e), case());
                    return;
                }
                Ok(Ok(d)) => {
                    if let Some(diff) = first_difference(&exp, &d) {
                        // classify the known include-scope defect separately: does a copy-scope evaluation match?
                        let alt = evaluate(&am, false);
                        let sig = if alt.reject.is_none() && first_difference(&alt, &d).is_none() { "include-scope-not-shared" } else if prop == "C11" { "evaluated-value-differs" } else { "loaded-graph-differs" };
                        rep.violation(sig, &diff, case());
                        return;
                    }
                    let b = dump_builds(&d);
                    match &first_dump {
                        None => first_dump = Some(b),
                        Some(f) => {
                            if *f != b {
                                rep.violation("spelling-dependent", "two spellings of one abstract manifest load differently", case());
                                return;
                            }
                        }
                    }
                    if nontrivial {
                        rep.nontrivial.insert(fnv_combine(amh, r.spelling_hash));
                        if k == 1 {
                            rep.sample(case);
                        }
                    }
                }
            }
        }
        rep.count("abstract_manifests", 1);
        if am.files.len() > 1 {
            rep.count("manifests_with_includes", 1);
        }
    });
}
