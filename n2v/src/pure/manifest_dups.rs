//! C14: duplicate outputs between statements (rejected, citing both) and
//! within one statement (accepted with a warning, listed once).
use super::manifest::*;
use super::{guarded, input_loop};
use crate::ap::{canon_ref, respell};
use crate::json::J;
use crate::report::Report;
use crate::rng::{fnv, Rng};
use crate::Ctx;
use std::io::{Read, Seek, SeekFrom};

/// Run `f` with fd 1 redirected into a temp file; returns what was printed.
fn capture_stdout<T>(tmp: &mut std::fs::File, f: impl FnOnce() -> T) -> (T, String) {
    use std::os::fd::AsRawFd;
    tmp.set_len(0).unwrap();
    tmp.seek(SeekFrom::Start(0)).unwrap();
    unsafe {
        libc::fflush(std::ptr::null_mut());
    }
    let saved = unsafe { libc::dup(1) };
    unsafe { libc::dup2(tmp.as_raw_fd(), 1) };
    let r = f();
    {
        use std::io::Write;
        let _ = std::io::stdout().flush();
    }
    unsafe {
        libc::dup2(saved, 1);
        libc::close(saved);
    }
    tmp.seek(SeekFrom::Start(0)).unwrap();
    let mut s = String::new();
    let _ = tmp.read_to_string(&mut s);
    (r, s)
}

fn lit(s: &str) -> Ev {
    vec![Part::Lit(s.to_string())]
}

/// All (explicit, implicit) name-index sequences with 1..=4 explicit, 0..=3 implicit, total <= 5, over 3 names.
fn enumerate_lists() -> Vec<(Vec<usize>, Vec<usize>)> {
    let mut v = Vec::new();
    for ne in 1..=4usize {
        for ni in 0..=3usize {
            if ne + ni > 5 {
                continue;
            }
            let total = ne + ni;
            let count = 3usize.pow(total as u32);
            for mut code in 0..count {
                let mut seq = Vec::new();
                for _ in 0..total {
                    seq.push(code % 3);
                    code /= 3;
                }
                // canonical form: names appear in order of first use (0 before 1 before 2)
                let mut next = 0;
                let mut ok = true;
                for &x in &seq {
                    if x > next {
                        ok = false;
                        break;
                    }
                    if x == next {
                        next += 1;
                    }
                }
                if !ok {
                    continue;
                }
                let has_dup = {
                    let mut s = seq.clone();
                    s.sort();
                    s.dedup();
                    s.len() < seq.len()
                };
                if !has_dup {
                    continue;
                }
                v.push((seq[..ne].to_vec(), seq[ne..].to_vec()));
            }
        }
    }
    v
}

pub fn run(ctx: &Ctx, rep: &mut Report, dir: &std::path::Path) {
    let lists = enumerate_lists();
    let nlists = lists.len() as u64;
    rep.max("max_exhaustive_domain_size", nlists);
    let mut tmp = std::fs::File::options().read(true).write(true).create(true).truncate(true).open(ctx.scratch.join("stdout.txt")).unwrap();
    let names = ["a", "d/b", "c.o"];
    input_loop(ctx, rep, nlists, |idx, ex, rep| {
        let mut rng = Rng::new(crate::rng::mix64(ctx.seed ^ idx.wrapping_mul(0x9e3779b97f4a7c15)));
        if ex || rng.chance(1, 2) {
            // ---- repeated inside one statement
            let (e, i) = if ex { lists[idx as usize].clone() } else { rng.pick(&lists).clone() };
            let mut seen = std::collections::BTreeSet::new();
            let mut spell = |k: usize, rng: &mut Rng| -> Ev {
                let base = names[k];
                // first occurrence canonical; repeats under any canon-equivalent spelling
                if seen.insert(k) || rng.chance(1, 2) {
                    lit(base)
                } else {
                    lit(&respell(base, rng))
                }
            };
            let outs: Vec<Ev> = e.iter().map(|&k| spell(k, &mut rng)).collect();
            let iouts: Vec<Ev> = i.iter().map(|&k| spell(k, &mut rng)).collect();
            let am = AM {
                files: vec![(
                    "build.ninja".into(),
                    vec![
                        Stmt::Rule { name: "r".into(), binds: vec![("command".into(), lit("cmd $in"))] },
                        Stmt::Build { outs, iouts, rule: "r".into(), ins: vec![lit("src")], imps: vec![], oos: vec![], vals: vec![], binds: vec![] },
                        Stmt::Build { outs: vec![lit("later")], iouts: vec![], rule: "r".into(), ins: vec![lit(names[0])], imps: vec![], oos: vec![], vals: vec![], binds: vec![] },
                    ],
                )],
            };
            let mut am = am;
            let clash = !ex && rng.chance(1, 3);
            if clash {
                // the second statement also claims the last output of the first one
                let last_name = names[*e.iter().chain(i.iter()).last().unwrap()];
                if let Stmt::Build { outs, .. } = &mut am.files[0].1[2] {
                    let sp = if rng.chance(1, 2) { last_name.to_string() } else { respell(last_name, &mut rng) };
                    outs.push(lit(&sp));
                }
            }
            let exp = evaluate(&am, true);
            let r = render(&am, &mut rng, rng_plain(idx));
            rep.evaluations += 1;
            rep.count(if ex { "exhaustive_inputs" } else if clash { "repeat_then_clash_inputs" } else { "random_repeat_inputs" }, 1);
            if clash {
                let case = || J::obj().with("case", J::i(idx)).with("manifest", J::s(&r.files[0].1));
                let (res, _printed) = capture_stdout(&mut tmp, || load_rendered(dir, &r));
                match res {
                    Err(p) => rep.violation(&format!("panic:{}", crate::sim::panic_sig(&p)), &p, case()),
                    Ok(Ok(_)) => rep.violation("duplicate-output-accepted", "an output listed after a repeated one is also an output of a later statement, but the manifest loaded", case()),
                    Ok(Err(e)) => {
                        // a duplicate-output error cites a second location (`file:line` twice)
                        if !e.contains("already an output") && e.matches(".ninja:").count() < 2 {
                            rep.violation("duplicate-output-diagnostic", &format!("{:?}", e), case());
                        }
                        rep.nontrivial.insert(fnv(r.files[0].1.as_bytes()));
                    }
                }
                let _ = exp;
                return;
            }
            let case = || J::obj().with("case", J::i(idx)).with("manifest", J::s(&r.files[0].1));
            let (res, printed) = capture_stdout(&mut tmp, || load_rendered(dir, &r));
            match res {
                Err(p) => rep.violation(&format!("panic:{}", crate::sim::panic_sig(&p)), &p, case()),
                Ok(Err(e)) => rep.violation("repeated-output-rejected", &format!("an output repeated inside one statement must be accepted: {}", e), case()),
                Ok(Ok(d)) => {
                    if !printed.contains("warn") {
                        rep.violation("repeat-warning-missing", &format!("stdout was {:?}", printed), case());
                    }
                    if let Some(diff) = first_difference(&exp, &d) {
                        rep.violation("repeated-output-list-wrong", &diff, case());
                    }
                    // evidence only: what $out looked like is not asserted (DESIGN.md O5)
                }
            }
            let mult = e.iter().chain(i.iter()).filter(|&&k| k == 0).count();
            let straddle = e.iter().any(|k| i.contains(k));
            if mult >= 3 || straddle {
                rep.nontrivial.insert(fnv(r.files[0].1.as_bytes()));
                rep.sample(case);
            }
        } else {
            // ---- two statements naming the same output: general manifest + injected duplicate
            let mut am = Gen::new(&mut rng, "C10").gen();
            if evaluate(&am, true).reject.is_some() {
                return;
            }
            // collect build statement positions in parse order
            let mut pos: Vec<(usize, usize)> = Vec::new();
            fn order(am: &AM, f: usize, out: &mut Vec<(usize, usize)>, depth: usize) {
                if depth > 8 {
                    return;
                }
                for (si, s) in am.files[f].1.iter().enumerate() {
                    match s {
                        Stmt::Build { .. } => out.push((f, si)),
                        Stmt::Include(g) | Stmt::Subninja(g) => order(am, *g, out, depth + 1),
                        _ => {}
                    }
                }
            }
            order(&am, 0, &mut pos, 0);
            if rng.chance(1, 8) {
                // the same subninja file loaded a second time: every output in it now has two producers
                let mut subs: Vec<usize> = Vec::new();
                for (_, stmts) in &am.files {
                    for s in stmts {
                        if let Stmt::Subninja(g) = s {
                            if am.files[*g].1.iter().any(|x| matches!(x, Stmt::Build { .. })) {
                                subs.push(*g);
                            }
                        }
                    }
                }
                if subs.is_empty() {
                    return;
                }
                let g = *rng.pick(&subs);
                am.files[0].1.push(Stmt::Subninja(g));
                let exp = evaluate(&am, true);
                if !matches!(&exp.reject, Some(m) if m.contains("already an output")) {
                    return;
                }
                let r = render(&am, &mut rng, false);
                rep.evaluations += 1;
                rep.count("subninja_twice_inputs", 1);
                let case = || J::obj().with("case", J::i(idx)).with("manifest", J::Arr(r.files.iter().map(|(n, t)| J::Arr(vec![J::s(n), J::s(t)])).collect()));
                let (res, _printed) = capture_stdout(&mut tmp, || load_rendered(dir, &r));
                match res {
                    Err(p) => rep.violation(&format!("panic:{}", crate::sim::panic_sig(&p)), &p, case()),
                    Ok(Ok(_)) => rep.violation("duplicate-output-accepted", "a file with build statements is loaded by two subninja statements, but the manifest loaded", case()),
                    Ok(Err(_)) => {
                        rep.nontrivial.insert(fnv(r.files[0].1.as_bytes()) ^ 7);
                    }
                }
                return;
            }
            if pos.len() < 2 {
                return;
            }
            let b1 = rng.below(pos.len() - 1);
            let b2 = rng.range(b1 + 1, pos.len() - 1);
            // the victim output: a literal-only output of b1 (so that its value does not depend on scope)
            let victim = match &am.files[pos[b1].0].1[pos[b1].1] {
                Stmt::Build { outs, iouts, .. } => outs.iter().chain(iouts.iter()).find(|e| e.len() == 1 && matches!(&e[0], Part::Lit(_))).cloned(),
                _ => None,
            };
            let Some(victim) = victim else { return };
            let Part::Lit(vname) = &victim[0] else { return };
            let mut canon = canon_ref(vname);
            let deep = rng.chance(1, 6);
            if deep {
                // more than 60 components: rename the victim itself to a deep path first
                let prefix: String = (1..=rng.range(61, 90)).map(|k| format!("d{}/", k)).collect();
                let deep_name = format!("{}{}", prefix, canon.replace('/', "_"));
                if let Stmt::Build { outs, iouts, .. } = &mut am.files[pos[b1].0].1[pos[b1].1] {
                    for e in outs.iter_mut().chain(iouts.iter_mut()) {
                        if *e == victim {
                            *e = lit(&deep_name);
                        }
                    }
                }
                canon = deep_name;
            }
            let dup = if rng.chance(1, 2) && !deep { canon.clone() } else { respell(&canon, &mut rng) };
            // sometimes the second statement spells the path through a variable bound in its own block
            // that shadows a file-level variable of the same name (paths see the block's bindings first)
            let how = rng.below(8);
            let via_block_var = how < 2;
            // ... or through a file-level variable that an included file re-binds just before
            let via_include_rebind = how == 2;
            if via_include_rebind {
                am.files[0].1.insert(0, Stmt::Var("dupv".into(), lit("elsewhere")));
                for p in pos.iter_mut() {
                    if p.0 == 0 {
                        p.1 += 1;
                    }
                }
                let nf = am.files.len();
                am.files.push(("8rebind.ninja".to_string(), vec![Stmt::Var("dupv".into(), lit(&dup))]));
                let (f2, s2) = pos[b2];
                am.files[f2].1.insert(s2, Stmt::Include(nf));
                for p in pos.iter_mut() {
                    if p.0 == f2 && p.1 >= s2 {
                        p.1 += 1;
                    }
                }
            }
            if via_block_var {
                am.files[0].1.insert(0, Stmt::Var("dupv".into(), lit("elsewhere")));
                for p in pos.iter_mut() {
                    if p.0 == 0 {
                        p.1 += 1;
                    }
                }
            }
            if let Stmt::Build { outs, iouts, binds, .. } = &mut am.files[pos[b2].0].1[pos[b2].1] {
                let spelled = if via_block_var {
                    binds.push(("dupv".into(), lit(&dup)));
                    vec![Part::Ref("dupv".into())]
                } else if via_include_rebind {
                    vec![Part::Ref("dupv".into())]
                } else {
                    lit(&dup)
                };
                if rng.chance(1, 2) {
                    let at = rng.below(outs.len() + 1);
                    outs.insert(at, spelled);
                } else {
                    let at = rng.below(iouts.len() + 1);
                    iouts.insert(at, spelled);
                }
            }
            let exp = evaluate(&am, true);
            if !matches!(&exp.reject, Some(m) if m.contains("already an output")) {
                return;
            }
            let r = render(&am, &mut rng, false);
            rep.evaluations += 1;
            rep.count("cross_statement_inputs", 1);
            let case = || J::obj().with("case", J::i(idx)).with("manifest", J::Arr(r.files.iter().map(|(n, t)| J::Arr(vec![J::s(n), J::s(t)])).collect())).with("duplicate", J::s(&dup));
            let (res, _printed) = capture_stdout(&mut tmp, || load_rendered(dir, &r));
            match res {
                Err(p) => rep.violation(&format!("panic:{}", crate::sim::panic_sig(&p)), &p, case()),
                Ok(Ok(_)) => rep.violation("duplicate-output-accepted", &format!("{:?} is an output of two statements but the manifest loaded", canon), case()),
                Ok(Err(e)) => {
                    // must cite both statements: "<file>:<line>" within each statement's span
                    let cites = |k: usize| -> bool {
                        let (f, a, b) = &r.build_lines[k];
                        (*a..=*b).any(|l| e.contains(&format!("{}:{}", f, l)))
                    };
                    if !cites(b1) || !cites(b2) {
                        rep.violation("duplicate-output-diagnostic", &format!("error {:?} does not cite both statements (lines {:?} and {:?})", e, r.build_lines[b1], r.build_lines[b2]), case());
                    }
                    if dup != canon || am.files.len() > 1 {
                        rep.nontrivial.insert(fnv(e.as_bytes()) ^ fnv(r.files[0].1.as_bytes()));
                        rep.sample(case);
                    }
                }
            }
        }
    });
}

fn rng_plain(idx: u64) -> bool {
    idx % 2 == 0
}
