//! E3: function-level monitors over n2's pure functions (canonicalisation,
//! manifest loading, depfile parsing, progress rendering), compared with
//! independently written references or the generator's ground truth.
pub mod canon;
pub mod depfile;
pub mod manifest;
pub mod manifest_dups;
pub mod render;
pub mod total;

use crate::report::Report;
use crate::Ctx;

pub fn run(ctx: &Ctx, rep: &mut Report) {
    match ctx.prop.as_str() {
        "C13" => canon::run(ctx, rep),
        "C15" => depfile::run(ctx, rep),
        "C20" => render::run(ctx, rep),
        "C10" | "C11" | "C14" => manifest::run(ctx, rep),
        "C12" => total::run(ctx, rep),
        "C09" => depfile::run_showincludes(ctx, rep),
        p => rep.inconclusive.push(format!("no pure workload for {}", p)),
    }
}

/// Enumerate inputs: indices 0..exhaustive are the exhaustive domain (split
/// over shards by index), indices beyond are seeded random inputs, produced
/// until the time budget is used.  `f(idx, exhaustive_part)`.
pub fn input_loop(ctx: &Ctx, rep: &mut Report, exhaustive: u64, mut f: impl FnMut(u64, bool, &mut Report)) {
    if let Some(c) = ctx.only_case {
        ctx.journal(c);
        f(c, c < exhaustive, rep);
        return;
    }
    let n = ctx.nshards as u64;
    let mut idx = ctx.shard as u64;
    if let Some(fc) = ctx.from_case {
        // continue with this shard's first index >= fc
        while idx < fc {
            idx += n * ((fc - idx + n - 1) / n).max(1);
        }
    }
    let mut k: u64 = 0;
    let mut done_exhaustive = true;
    // the enumeration may not eat the whole budget (slow builds, loaded machine): the random
    // workloads behind it keep at least a third of it
    let exhaustive_deadline = ctx.started + (ctx.deadline.saturating_duration_since(ctx.started)) * 2 / 3;
    while idx < exhaustive {
        if ctx.fine_journal || k % 1024 == 0 {
            ctx.journal(idx);
            ctx.checkpoint(rep);
            if k % 1024 == 0 && std::time::Instant::now() >= exhaustive_deadline && !ctx.fine_journal {
                done_exhaustive = false;
                break;
            }
        }
        f(idx, true, rep);
        idx += n;
        k += 1;
        if k >= ctx.max_cases {
            return;
        }
    }
    if done_exhaustive && ctx.from_case.is_none() {
        rep.count("exhaustive_shards_completed", 1);
    }
    // random part
    let mut r = exhaustive + ctx.shard as u64;
    if let Some(fc) = ctx.from_case {
        while r < fc {
            r += n;
        }
    }
    while !ctx.expired() && k < ctx.max_cases {
        if ctx.fine_journal || k % 256 == 0 {
            ctx.journal(r);
            ctx.checkpoint(rep);
        }
        f(r, false, rep);
        r += n;
        k += 1;
    }
}

/// Run `f` catching panics; returns Err(panic message) on panic.
pub fn guarded<T>(f: impl FnOnce() -> T) -> Result<T, String> {
    crate::sim::LAST_PANIC.with(|p| *p.borrow_mut() = None);
    match std::panic::catch_unwind(std::panic::AssertUnwindSafe(f)) {
        Ok(v) => Ok(v),
        Err(_) => Err(crate::sim::LAST_PANIC.with(|p| p.borrow().clone()).unwrap_or_else(|| "panic".into())),
    }
}

/// idx -> string over `alphabet`, enumerating all strings of length 1..=maxlen
/// (shorter first).  Returns None past the end.
pub fn nth_string(mut idx: u64, alphabet: &[&str], maxlen: usize) -> Option<String> {
    let k = alphabet.len() as u64;
    let mut len = 1;
    let mut count = k;
    loop {
        if len > maxlen {
            return None;
        }
        if idx < count {
            break;
        }
        idx -= count;
        len += 1;
        count *= k;
    }
    let mut parts = Vec::with_capacity(len);
    for _ in 0..len {
        parts.push(alphabet[(idx % k) as usize]);
        idx /= k;
    }
    Some(parts.concat())
}

pub fn count_strings(k: u64, maxlen: usize) -> u64 {
    let mut t = 0;
    let mut c = 1;
    for _ in 0..maxlen {
        c *= k;
        t += c;
    }
    t
}
