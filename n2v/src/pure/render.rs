//! C20: progress rendering helpers.
use super::{count_strings, guarded, input_loop, nth_string};
use crate::json::J;
use crate::report::Report;
use crate::rng::{fnv, Rng};
use crate::Ctx;
use n2::verif::facade;

fn time_note(secs: usize) -> String {
    if secs > 2 {
        format!(" ({}s)", secs)
    } else {
        String::new()
    }
}

fn check_task_message(msg: &str, secs: usize, cols: usize, rep: &mut Report, idx: u64) {
    rep.evaluations += 1;
    let m = msg.to_string();
    let case = || J::obj().with("case", J::i(idx)).with("message", J::s(msg)).with("secs", J::i(secs)).with("cols", J::i(cols));
    let out = match guarded(move || facade::task_message(&m, secs, cols)) {
        Ok(o) => o,
        Err(p) => {
            rep.violation(&format!("panic:{}", crate::sim::panic_sig(&p)), &format!("task_message({:?}, {}, {}) panicked: {}", msg, secs, cols, p), case());
            return;
        }
    };
    let note = time_note(secs);
    let fits = msg.len() + note.len() < cols;
    if fits {
        if out != format!("{}{}", msg, note) {
            rep.violation("fitting-message-altered", &format!("{:?}", out), case());
        }
        return;
    }
    // cut: prefix at a char boundary + "..." + note, at most max(cols, 3 + note) bytes
    let Some(rest) = out.strip_suffix(&note) else {
        rep.violation("time-note-missing", &format!("{:?}", out), case());
        return;
    };
    let Some(prefix) = rest.strip_suffix("...") else {
        if out == format!("{}{}", msg, note) {
            rep.violation("overlong-message-unchanged", &format!("{:?} does not fit {} columns", out, cols), case());
        } else {
            rep.violation("ellipsis-missing", &format!("{:?}", out), case());
        }
        return;
    };
    if !msg.starts_with(prefix) {
        rep.violation("not-a-prefix", &format!("{:?}", out), case());
    }
    let limit = cols.max(3 + note.len());
    if out.len() > limit {
        rep.violation("too-wide", &format!("{:?} is {} bytes, limit {}", out, out.len(), limit), case());
    }
    // the cut position fell inside a multi-byte character?
    let naive = cols.saturating_sub(note.len() + 3);
    if naive < msg.len() && !msg.is_char_boundary(naive) {
        rep.nontrivial.insert(fnv(msg.as_bytes()) ^ (cols as u64) << 32 ^ secs as u64);
        rep.sample(case);
    }
}

fn check_truncate(s: &str, max: usize, rep: &mut Report, idx: u64) {
    rep.evaluations += 1;
    let ss = s.to_string();
    let case = || J::obj().with("case", J::i(idx)).with("line", J::s(s)).with("max", J::i(max));
    match guarded(move || facade::truncate(&ss, max).to_string()) {
        Ok(o) => {
            if !s.starts_with(&o) || o.len() > max.max(0) && o.len() > max {
                rep.violation("truncate-wrong", &format!("truncate({:?}, {}) = {:?}", s, max, o), case());
            }
            if s.len() > max && o == s {
                rep.violation("overlong-line-unchanged", &format!("{:?}", o), case());
            }
            if s.len() <= max && o != s {
                rep.violation("fitting-line-altered", &format!("{:?}", o), case());
            }
            if max < s.len() && !s.is_char_boundary(max) {
                rep.nontrivial.insert(fnv(s.as_bytes()) ^ (max as u64) << 40);
            }
        }
        Err(p) => rep.violation(&format!("panic:{}", crate::sim::panic_sig(&p)), &format!("truncate({:?}, {}) panicked: {}", s, max, p), case()),
    }
}

fn check_bar(counts: [usize; 6], rep: &mut Report, idx: u64) {
    rep.evaluations += 1;
    let case = || J::obj().with("case", J::i(idx)).with("counts", J::Arr(counts.iter().map(|&c| J::i(c)).collect()));
    match guarded(move || facade::progress_bar(counts, 40)) {
        Ok(bar) => {
            if bar.len() != 40 {
                rep.violation("bar-width", &format!("bar {:?} has {} bytes", bar, bar.len()), case());
            }
            if bar.bytes().any(|b| !matches!(b, b'=' | b'-' | b' ')) {
                rep.violation("bar-chars", &format!("{:?}", bar), case());
            }
        }
        Err(p) => rep.violation(&format!("panic:{}", crate::sim::panic_sig(&p)), &format!("progress_bar({:?}) panicked: {}", counts, p), case()),
    }
}

pub fn run(ctx: &Ctx, rep: &mut Report) {
    let alphabet: [&str; 4] = ["a", "é", "ビ", "😀"];
    let maxlen = if ctx.thorough() { 7 } else { 6 };
    let nstr = count_strings(4, maxlen);
    // count vectors with total <= 12 over 6 states: enumerate by mixed radix 13^6 (filter)
    let nvec: u64 = 13u64.pow(6);
    // the bar only distinguishes three groups: finished / in flight / waiting
    let ntriple: u64 = 131 * 131 * 131;
    let secs_set = [0usize, 2, 3, 99, 100, 999, 1000, 99_999, 1_000_000];
    rep.max("max_exhaustive_domain_size", nstr + nvec + ntriple);
    input_loop(ctx, rep, nstr + nvec + ntriple, |idx, ex, rep| {
        if ex && idx < nstr {
            let Some(core) = nth_string(idx, &alphabet, maxlen) else { return };
            rep.count("exhaustive_strings", 1);
            // pad so that the cut falls around the multi-byte part
            for pad in [0usize, 3, 9] {
                let msg = format!("{}{}", "x".repeat(pad), core);
                let len = msg.len();
                for &secs in &secs_set {
                    for cols in 10..(len + 15).max(11) {
                        check_task_message(&msg, secs, cols, rep, idx);
                    }
                }
                for max in 0..len + 2 {
                    check_truncate(&msg, max, rep, idx);
                }
            }
        } else if ex && idx >= nstr + nvec {
            let mut v = idx - nstr - nvec;
            let a = (v % 131) as usize;
            v /= 131;
            let b = (v % 131) as usize;
            v /= 131;
            let c = v as usize;
            rep.count("exhaustive_count_triples", 1);
            // spread the groups over their member states in two ways
            check_bar([c, 0, 0, b, a, 0], rep, idx);
            if a > 0 && b > 1 {
                check_bar([c, 1, b - 2, 1, a - 1, 1], rep, idx);
            }
        } else if ex {
            let mut v = idx - nstr;
            let mut c = [0usize; 6];
            for x in c.iter_mut() {
                *x = (v % 13) as usize;
                v /= 13;
            }
            if c.iter().sum::<usize>() <= 12 {
                rep.count("exhaustive_count_vectors", 1);
                check_bar(c, rep, idx);
            }
        } else {
            let mut rng = Rng::new(crate::rng::mix64(ctx.seed ^ idx.wrapping_mul(0x9e3779b97f4a7c15)));
            let n = rng.range(0, 120);
            let pool = ["a", "b", " ", "é", "ビ", "ル", "ド", "中", "😀", "-", "/", "ß", "\u{301}"];
            let mut s = String::new();
            for _ in 0..n {
                s.push_str(*rng.pick(&pool[..]));
            }
            let cols = rng.range(10, 300);
            let secs = *rng.pick(&secs_set);
            check_task_message(&s, secs, cols, rep, idx);
            // raw bytes through from_utf8_lossy as task_output does, width - 2
            let mut raw: Vec<u8> = s.clone().into_bytes();
            for _ in 0..rng.below(4) {
                let at = rng.below(raw.len() + 1);
                raw.insert(at, *rng.pick(&[0xffu8, 0xc3, 0xe3, 0x80, 0xf0]));
            }
            let lossy = String::from_utf8_lossy(&raw).into_owned();
            check_truncate(&lossy, cols - 2, rep, idx);
            let mut c = [0usize; 6];
            for x in c.iter_mut() {
                *x = match rng.below(4) {
                    0 => 0,
                    1 => rng.below(5),
                    2 => rng.below(1000),
                    _ => rng.below(1_000_000),
                };
            }
            check_bar(c, rep, idx);
            rep.count("random_inputs", 1);
        }
    });
}
