//! C15: depfile parsing; C09 (function-level part): /showIncludes filtering.
use super::{count_strings, guarded, input_loop, nth_string};
use crate::json::J;
use crate::report::Report;
use crate::rng::{fnv, Rng};
use crate::Ctx;
use n2::verif::facade;

fn gen_name(rng: &mut Rng, windows: bool) -> String {
    let chars = b"abcdefghijklmnopqrstuvwxyzABCXYZ0123456789_./+-";
    let n = rng.range(1, 40);
    let mut s = String::new();
    if windows {
        s.push_str("C:/");
    }
    for i in 0..n {
        let c = *rng.pick(chars) as char;
        s.push(c);
        if windows && rng.chance(1, 8) && i + 1 < n {
            // single backslash followed by a letter
            s.push('\\');
            s.push('w');
        }
    }
    // names must not end in ':' (target heuristics) and not contain spaces
    s
}

struct Rendered {
    text: String,
    expected: Vec<String>,
    entries: usize,
    continuations: usize,
    repeated_target: bool,
}

fn render(rng: &mut Rng, allow_repeat: bool) -> Rendered {
    let nent = rng.range(1, 6);
    let mut text = String::new();
    let mut expected = Vec::new();
    let mut continuations = 0;
    let mut targets: Vec<String> = Vec::new();
    let mut by_target: Vec<(String, Vec<String>)> = Vec::new();
    let mut repeated = false;
    let sp = |rng: &mut Rng, lo: usize, hi: usize| " ".repeat(rng.range(lo, hi));
    for e in 0..nent {
        for _ in 0..rng.below(3) {
            // blank lines, some of them made of spaces only
            if rng.chance(1, 3) {
                text.push_str(&" ".repeat(rng.range(1, 4)));
            }
            text.push('\n');
        }
        let windows = rng.chance(1, 6);
        let mut target = gen_name(rng, windows);
        if allow_repeat && !targets.is_empty() && rng.chance(1, 3) {
            target = rng.pick(&targets).clone();
            repeated = true;
        } else {
            while targets.contains(&target) {
                target.push('x');
            }
        }
        targets.push(target.clone());
        if !by_target.iter().any(|(t, _)| *t == target) {
            by_target.push((target.clone(), vec![]));
        }
        text.push_str(&target);
        text.push_str(&sp(rng, 0, 3));
        text.push(':');
        let nprereq = if rng.chance(1, 6) { 0 } else { rng.range(1, 6) };
        for _ in 0..nprereq {
            // gap: at least one space or one continuation
            if rng.chance(1, 3) {
                text.push_str(&sp(rng, 0, 2));
                text.push_str("\\\n");
                text.push_str(&sp(rng, 0, 4));
                continuations += 1;
            } else {
                text.push_str(&sp(rng, 1, 3));
            }
            let w = rng.chance(1, 6);
            let p = gen_name(rng, w);
            text.push_str(&p);
            expected.push(p.clone());
            match by_target.iter_mut().find(|(t, _)| *t == target) {
                Some((_, v)) => v.push(p),
                None => by_target.push((target.clone(), vec![p])),
            }
        }
        text.push_str(&sp(rng, 0, 3));
        let last = e + 1 == nent;
        if !(last && rng.chance(1, 3)) {
            text.push('\n');
        }
    }
    for _ in 0..rng.below(2) {
        if text.ends_with('\n') {
            text.push('\n');
        }
    }
    if repeated {
        // prerequisites of a repeated target accumulate under its first occurrence
        expected = by_target.into_iter().flat_map(|(_, v)| v).collect();
    }
    Rendered { text, expected, entries: nent, continuations, repeated_target: repeated }
}

pub fn run(ctx: &Ctx, rep: &mut Report) {
    let alphabet: [&str; 5] = ["a", " ", ":", "\\", "\n"];
    let maxlen = if ctx.thorough() { 10 } else { 9 };
    let total = count_strings(5, maxlen);
    rep.max("max_exhaustive_domain_size", total);
    let dir = ctx.scratch.join("dep");
    std::fs::create_dir_all(&dir).unwrap();
    let path = dir.join("x.d");
    // missing depfile counts as empty
    let missing = dir.join("does-not-exist.d");
    match guarded(|| facade::read_depfile(&missing)) {
        Ok(Ok(v)) if v.is_empty() => rep.count("missing_depfile_checks", 1),
        other => rep.violation("missing-depfile-not-empty", &format!("{:?}", other.map(|r| r.map_err(|e| e.to_string()))), J::obj()),
    }
    input_loop(ctx, rep, total, |idx, ex, rep| {
        if ex {
            let Some(s) = nth_string(idx, &alphabet, maxlen) else { return };
            rep.evaluations += 1;
            rep.count("exhaustive_inputs", 1);
            let bytes = s.clone().into_bytes();
            match guarded(move || facade::parse_depfile_bytes(bytes)) {
                Ok(Ok(_)) => {}
                Ok(Err(msg)) => {
                    if !msg.contains("parse error") || !msg.contains("depfile") || !msg.contains('^') {
                        rep.violation("malformed-diagnostic", &format!("input {:?} -> {:?}", s, msg), J::obj().with("case", J::i(idx)).with("input", J::s(&s)));
                    }
                    rep.count("rejected_inputs", 1);
                }
                Err(m) => {
                    rep.violation(&format!("panic:{}", crate::sim::panic_sig(&m)), &format!("depfile {:?} panicked: {}", s, m), J::obj().with("case", J::i(idx)).with("input", J::s(&s)));
                }
            }
            return;
        }
        let mut rng = Rng::new(crate::rng::mix64(ctx.seed ^ idx.wrapping_mul(0x9e3779b97f4a7c15)));
        let allow_repeat = rng.chance(1, 8);
        let r = render(&mut rng, allow_repeat);
        rep.evaluations += 1;
        rep.count("structured_inputs", 1);
        if r.repeated_target {
            rep.count("repeated_target_inputs", 1);
        }
        let case = || J::obj().with("case", J::i(idx)).with("depfile", J::s(&r.text)).with("expected", J::strs(r.expected.iter().cloned()));
        // through the real file reader
        std::fs::write(&path, r.text.as_bytes()).unwrap();
        match guarded(|| facade::read_depfile(&path)) {
            Ok(Ok(deps)) => {
                if deps != r.expected {
                    let sig = if r.repeated_target { "repeated-target-deps-lost" } else { "deps-differ" };
                    rep.violation(sig, &format!("parsed {:?}, written {:?}", deps, r.expected), case());
                }
            }
            Ok(Err(e)) => rep.violation("valid-depfile-rejected", &format!("{}", e), case()),
            Err(m) => rep.violation(&format!("panic:{}", crate::sim::panic_sig(&m)), &m, case()),
        }
        if r.entries >= 2 || r.continuations > 0 {
            rep.nontrivial.insert(fnv(r.text.as_bytes()));
            rep.sample(case);
        }
        // malformed content: must fail with a parse error naming the depfile path
        if rng.chance(1, 6) {
            let kind = rng.below(6);
            let bad = match kind {
                0 => format!("{}\\x", r.text.trim_end()),
                1 => "target_without_colon dep\n".to_string(),
                2 => format!("a: b \\\\ c\n"),
                // a backslash between tokens that does not continue the line
                3 => format!("out: foo \\bar\n"),
                4 => format!("out: foo \\"),
                _ => format!("\\out: foo\n"),
            };
            let must_reject = kind >= 1;
            std::fs::write(&path, bad.as_bytes()).unwrap();
            match guarded(|| facade::read_depfile(&path)) {
                Ok(Err(e)) => {
                    let m = e.to_string();
                    rep.count("malformed_rejected", 1);
                    if !m.contains("parse error") || !m.contains("x.d") {
                        rep.violation("malformed-diagnostic", &format!("{:?} -> {:?}", bad, m), case());
                    }
                }
                Ok(Ok(d)) => {
                    if must_reject {
                        rep.violation("malformed-depfile-accepted", &format!("{:?} was read as {:?} instead of failing with a parse error", bad, d), case());
                    }
                    rep.count("malformed_accepted", 1);
                }
                Err(m) => rep.violation(&format!("panic:{}", crate::sim::panic_sig(&m)), &m, case()),
            }
        }
    });
}

/// C09, function-level: `Note: including file:` lines are removed from the
/// output and reported, everything else is kept in order.
pub fn run_showincludes(ctx: &Ctx, rep: &mut Report) {
    input_loop(ctx, rep, 0, |idx, _ex, rep| {
        let mut rng = Rng::new(crate::rng::mix64(ctx.seed ^ idx.wrapping_mul(0x9e3779b97f4a7c15)));
        let n = rng.range(0, 12);
        let mut out = Vec::<u8>::new();
        let mut includes = Vec::new();
        let mut kept: Vec<Vec<u8>> = Vec::new();
        for i in 0..n {
            let crlf = rng.chance(1, 3);
            if rng.chance(1, 2) {
                let name = format!("{}h{}.h", if rng.chance(1, 3) { "C:\\inc\\" } else { "inc/" }, rng.below(50));
                out.extend_from_slice(b"Note: including file: ");
                out.extend_from_slice(" ".repeat(rng.below(5)).as_bytes());
                out.extend_from_slice(name.as_bytes());
                includes.push(name);
                if crlf {
                    out.push(b'\r');
                }
            } else {
                let line: Vec<u8> = match rng.below(4) {
                    0 => format!("warning {}: something", i).into_bytes(),
                    1 => b"Note: not an include".to_vec(),
                    2 => vec![0xff, 0xfe, b'x'],
                    _ => format!("x{}", i).into_bytes(),
                };
                out.extend_from_slice(&line);
                kept.push(line);
            }
            out.push(b'\n');
        }
        // the last line of a command's output need not end in a newline
        if n > 0 && rng.chance(1, 3) {
            out.pop();
            if out.last() == Some(&b'\r') && rng.chance(1, 2) {
                out.pop();
            }
        }
        rep.evaluations += 1;
        let o2 = out.clone();
        match guarded(move || facade::extract_showincludes(o2)) {
            Ok((inc, filtered)) => {
                if inc != includes {
                    rep.violation("includes-differ", &format!("extracted {:?}, written {:?}", inc, includes), J::obj().with("case", J::i(idx)).with("output", J::bytes(&out)));
                }
                // compare non-empty lines in order
                let got: Vec<&[u8]> = filtered.split(|&c| c == b'\n').filter(|l| !l.is_empty()).collect();
                let want: Vec<&[u8]> = kept.iter().map(|l| l.as_slice()).filter(|l| !l.is_empty()).collect();
                if got != want {
                    rep.violation("output-lines-differ", &format!("kept lines differ: {:?} vs {:?}", String::from_utf8_lossy(&filtered), kept.iter().map(|l| String::from_utf8_lossy(l).into_owned()).collect::<Vec<_>>()), J::obj().with("case", J::i(idx)).with("output", J::bytes(&out)));
                }
                if filtered.windows(22).any(|w| w == b"Note: including file: ") {
                    rep.violation("include-line-left", "a /showIncludes line remains in the output", J::obj().with("case", J::i(idx)).with("output", J::bytes(&out)));
                }
                if !includes.is_empty() && !kept.is_empty() {
                    rep.nontrivial.insert(fnv(&out));
                    rep.sample(|| J::obj().with("output", J::bytes(&out)).with("includes", J::strs(includes.iter().cloned())));
                }
            }
            Err(m) => rep.violation(&format!("panic:{}", crate::sim::panic_sig(&m)), &m, J::obj().with("case", J::i(idx))),
        }
    });
}
