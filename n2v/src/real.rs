//! E2: black-box engine.  The real `n2` binary runs real `/bin/sh` commands
//! (`n2v-agent <step>`) in generated project directories; the oracle works on
//! the agents' event log, n2's stdout/exit status, the files left behind and
//! the reference model.
use crate::ap::*;
use crate::json::J;
use crate::model::*;
use crate::rng::Rng;
use crate::sim::World;
use std::collections::{BTreeMap, BTreeSet};
use std::io::Read;
use std::path::{Path, PathBuf};
use std::process::{Command, Stdio};
use std::time::{Duration, Instant};

pub struct RealEnv {
    pub n2: PathBuf,
    pub agent: PathBuf,
    /// wrapper in front of n2 (e.g. valgrind), if any
    pub wrapper: Vec<String>,
}

#[derive(Clone, Debug, Default)]
pub struct OutSpec {
    /// (fd, len, sleep_ms)
    pub chunks: Vec<(i32, usize, u64)>,
    pub final_newline: bool,
}

#[derive(Clone, Debug)]
pub struct RInv {
    pub targets: Vec<String>,
    pub j: Option<usize>,
    pub k: Option<usize>,
    pub adopt: bool,
    pub faults: BTreeMap<String, FailMode>,
    /// exit codes / signals for failing steps (default exit 1)
    pub exit_codes: BTreeMap<String, i32>,
    pub signals: BTreeMap<String, (i32, bool)>,
    pub sleeps: BTreeMap<String, u64>,
    pub outputs: BTreeMap<String, OutSpec>,
    /// extra leading args, e.g. ["-C", "sub"] or ["-f", "alt.ninja"]
    pub pre_args: Vec<String>,
    /// directory to run n2 in (relative to world.dir), default "."
    pub run_in: Option<PathBuf>,
    pub timeout_s: u64,
    pub verbose: bool,
    /// send SIGINT to n2's process group this many ms after the start (Ctrl-C)
    pub sigint_after_ms: Option<u64>,
}

impl Default for RInv {
    fn default() -> Self {
        RInv {
            targets: vec![],
            j: None,
            k: None,
            adopt: false,
            faults: BTreeMap::new(),
            exit_codes: BTreeMap::new(),
            signals: BTreeMap::new(),
            sleeps: BTreeMap::new(),
            outputs: BTreeMap::new(),
            pre_args: vec![],
            run_in: None,
            timeout_s: 60,
            verbose: false,
            sigint_after_ms: None,
        }
    }
}

impl RInv {
    pub fn to_json(&self) -> J {
        let mut o = J::obj();
        o.set("targets", J::strs(self.targets.iter().cloned()));
        o.set("j", self.j.map(J::i).unwrap_or(J::Null));
        o.set("k", self.k.map(J::i).unwrap_or(J::Null));
        if self.adopt {
            o.set("restat", J::Bool(true));
        }
        if !self.faults.is_empty() {
            let mut f = J::obj();
            for (k, v) in &self.faults {
                f.set(k, J::s(format!("{:?}", v)));
            }
            o.set("faults", f);
        }
        if !self.signals.is_empty() {
            o.set("signals", J::s(format!("{:?}", self.signals)));
        }
        if !self.exit_codes.is_empty() {
            o.set("exit_codes", J::s(format!("{:?}", self.exit_codes)));
        }
        if !self.pre_args.is_empty() {
            o.set("pre_args", J::strs(self.pre_args.iter().cloned()));
        }
        o
    }
    pub fn as_sim_inv(&self) -> crate::sim::Inv {
        crate::sim::Inv {
            targets: self.targets.clone(),
            j: self.j.unwrap_or(16),
            k: self.k,
            adopt: self.adopt,
            faults: self.faults.clone(),
            ..Default::default()
        }
    }
}

#[derive(Clone, Debug)]
pub struct AgentEv {
    /// version argument the command was started with ("v3")
    pub ver: String,
    pub kind: char,
    pub step: String,
    pub pid: u32,
    pub ns: u64,
    pub info: String,
}

#[derive(Clone, Debug)]
pub struct ROut {
    pub exit: Option<i32>,
    pub signal: Option<i32>,
    pub timed_out: bool,
    pub stdout: Vec<u8>,
    pub stderr: Vec<u8>,
    pub events: Vec<AgentEv>,
    pub wall_ms: u64,
    /// CLOCK_MONOTONIC ns at which SIGINT was sent, if it was
    pub sigint_ns: Option<u64>,
}

impl ROut {
    pub fn started(&self) -> Vec<String> {
        self.events.iter().filter(|e| e.kind == 'S').map(|e| e.step.clone()).collect()
    }
    pub fn finished_ok(&self) -> Vec<String> {
        self.events.iter().filter(|e| e.kind == 'E' && e.info == "ok").map(|e| e.step.clone()).collect()
    }
    pub fn last_line(&self) -> String {
        let s = String::from_utf8_lossy(&self.stdout);
        s.lines().last().unwrap_or("").to_string()
    }
    pub fn trace_json(&self) -> J {
        let t0 = self.events.first().map(|e| e.ns).unwrap_or(0);
        J::obj()
            .with("exit", self.exit.map(J::i).unwrap_or(J::Null))
            .with("signal", self.signal.map(J::i).unwrap_or(J::Null))
            .with(
                "events",
                J::Arr(self.events.iter().take(120).map(|e| J::s(format!("{} {} +{}us {}", e.kind, e.step, (e.ns - t0) / 1000, e.info))).collect()),
            )
            .with("stdout_tail", J::s(String::from_utf8_lossy(&self.stdout[self.stdout.len().saturating_sub(600)..]).into_owned()))
    }
    /// Maximum number of simultaneously running agents among `which` (sound lower bound of true concurrency).
    pub fn max_overlap(&self, which: &dyn Fn(&str) -> bool) -> usize {
        let mut pts: Vec<(u64, i32)> = Vec::new();
        let mut open: BTreeMap<(String, u32), u64> = BTreeMap::new();
        for e in &self.events {
            if !which(&e.step) {
                continue;
            }
            match e.kind {
                'S' => {
                    open.insert((e.step.clone(), e.pid), e.ns);
                }
                'E' => {
                    if let Some(s) = open.remove(&(e.step.clone(), e.pid)) {
                        pts.push((s, 1));
                        pts.push((e.ns, -1));
                    }
                }
                _ => {}
            }
        }
        // an end at time t is processed before a start at time t (conservative)
        pts.sort_by(|a, b| a.0.cmp(&b.0).then(a.1.cmp(&b.1)));
        let mut cur = 0;
        let mut best = 0;
        for (_, d) in pts {
            cur += d;
            best = best.max(cur);
        }
        best as usize
    }
}

fn mtime_ns(p: &Path) -> Option<u64> {
    let m = std::fs::metadata(p).ok()?;
    let t = m.modified().ok()?;
    match t.duration_since(std::time::UNIX_EPOCH) {
        Ok(d) => Some(d.as_secs() * 1_000_000_000 + d.subsec_nanos() as u64),
        // stamped before the epoch: still a timestamp (distinct from every later one)
        Err(e) => Some(u64::MAX - (e.duration().as_secs().min(1 << 40) * 1_000_000_000 + e.duration().subsec_nanos() as u64)),
    }
}

pub fn file_content(p: &Path) -> Option<u64> {
    let mut b = Vec::new();
    std::fs::File::open(p).ok()?.read_to_end(&mut b).ok()?;
    if b.len() == 17 && b[16] == b'\n' {
        if let Ok(s) = std::str::from_utf8(&b[..16]) {
            if let Ok(v) = u64::from_str_radix(s, 16) {
                return Some(v);
            }
        }
    }
    Some(crate::rng::fnv(&b))
}

/// Files the model tracks for a project.
fn tracked_names(w: &World) -> BTreeSet<String> {
    let mut n: BTreeSet<String> = w.proj.sources.iter().cloned().collect();
    for s in &w.proj.steps {
        for f in s.all_outs().chain(s.all_ins()) {
            n.insert(f.clone());
        }
        for f in &s.extra_reads {
            n.insert(canon_ref(f));
        }
    }
    for p in &w.next_gens {
        for s in &p.steps {
            for f in s.all_outs() {
                n.insert(f.clone());
            }
        }
    }
    for k in w.st.disk.keys() {
        n.insert(k.clone());
    }
    for k in w.texts.keys() {
        n.insert(k.clone());
    }
    n
}

/// Re-read the real directory into the model disk (tick = mtime in ns).
pub fn scan(w: &mut World) {
    let names = tracked_names(w);
    let mut disk = Disk::new();
    for n in names {
        let p = w.dir.join(&n);
        if p.is_file() {
            if let (Some(t), Some(c)) = (mtime_ns(&p), file_content(&p)) {
                disk.insert(n, FileSt { tick: t, content: c });
            }
        }
    }
    w.st.disk = disk;
}

/// Write a file so that its mtime differs from the previous one.
pub fn write_fresh(dir: &Path, name: &str, bytes: &[u8]) {
    let p = dir.join(name);
    if let Some(parent) = p.parent() {
        let _ = std::fs::create_dir_all(parent);
    }
    let old = mtime_ns(&p);
    std::fs::write(&p, bytes).expect("write");
    bump_if_same(&p, old);
}

fn bump_if_same(p: &Path, old: Option<u64>) {
    if let (Some(old), Some(new)) = (old, mtime_ns(p)) {
        if new <= old {
            if let Ok(f) = std::fs::File::options().write(true).open(p) {
                let _ = f.set_modified(std::time::UNIX_EPOCH + Duration::from_nanos(old + 1_000_000));
            }
        }
    }
}

pub fn touch_fresh(dir: &Path, name: &str) {
    let p = dir.join(name);
    let old = mtime_ns(&p);
    if let Ok(f) = std::fs::File::options().write(true).open(&p) {
        let _ = f.set_modified(std::time::SystemTime::now());
    }
    bump_if_same(&p, old);
}

pub fn write_manifest_real(w: &mut World) {
    let files = w.proj.render(&w.ropts);
    for (name, text) in files {
        write_fresh(&w.dir, &name, text.as_bytes());
        w.texts.insert(name, text);
    }
}

/// The depfile text a step writes: Makefile syntax with some formatting variety.
fn depfile_text(step: &Step, rng: &mut Rng) -> String {
    let mut t = format!("{}:", step.outs[0]);
    for (i, d) in step.extra_reads.iter().enumerate() {
        if i > 0 && rng.chance(1, 3) {
            t.push_str(" \\\n  ");
        } else {
            t.push(' ');
        }
        t.push_str(d);
    }
    if rng.chance(2, 3) {
        t.push('\n');
    }
    t
}

/// Write `.n2v/plan` for the next invocation.
pub fn write_plan(env: &RealEnv, w: &World, inv: &RInv, rng: &mut Rng) {
    let _ = env;
    let base = match &inv.run_in {
        Some(_) => w.dir.clone(),
        None => w.dir.clone(),
    };
    let mut lines = Vec::new();
    lines.push(J::obj().with("project_dir", J::s(base.to_string_lossy().into_owned())).with("manifest", J::s(&w.proj.manifest)).dump());
    // generations: stage the next manifest texts for the generator
    let mut gen_list: Option<String> = None;
    if let Some(np) = w.next_gens.first() {
        let files = np.render(&w.ropts);
        let mut list = String::new();
        for (i, (name, text)) in files.iter().enumerate() {
            let staged = format!(".n2v/next{}", i);
            std::fs::write(w.dir.join(&staged), text.as_bytes()).unwrap();
            list.push_str(&format!("{}\t{}\n", name, staged));
        }
        std::fs::write(w.dir.join(".n2v/nextlist"), list).unwrap();
        gen_list = Some(".n2v/nextlist".into());
    }
    // entries for the loaded generation and, if a generator may run, for the next one
    let mut all_steps: Vec<&Step> = w.proj.steps.iter().collect();
    if let Some(np) = w.next_gens.first() {
        for s in &np.steps {
            if !w.proj.steps.iter().any(|o| o.id == s.id && o.ver == s.ver) {
                all_steps.push(s);
            }
        }
    }
    for s in all_steps {
        if s.phony {
            continue;
        }
        let mut reads: Vec<String> = s.dirtying().cloned().collect();
        for r in &s.extra_reads {
            let c = canon_ref(r);
            if !reads.contains(&c) {
                reads.push(c);
            }
        }
        let outs: Vec<String> = s.all_outs().cloned().collect();
        let writes = match &s.effect {
            Effect::NoOutput => 0,
            Effect::SomeOutputs(k) => (*k).min(outs.len()),
            _ => outs.len(),
        };
        let mut o = J::obj()
            .with("id", J::s(&s.id))
            .with("ver", J::s(format!("v{}", s.ver)))
            .with("cmd", J::s(s.cmd(&w.proj.agent)))
            .with("argv", J::strs([s.id.clone(), format!("v{}", s.ver)]))
            .with("reads", J::strs(reads))
            .with("outs", J::strs(outs))
            .with("writes", J::i(writes))
            .with("wic", J::Bool(s.effect == Effect::WriteIfChanged))
            .with("sleep_ms", J::i(inv.sleeps.get(&s.id).copied().unwrap_or(0)));
        if let Effect::TouchOwnInput(f) = &s.effect {
            o.set("touch", J::s(f));
        }
        if let Some((p, c)) = &s.rsp {
            o.set("rsp", J::strs([p.clone(), c.clone()]));
        }
        if s.effect == Effect::Generator {
            if let Some(g) = &gen_list {
                o.set("gen_next", J::s(g));
            }
        }
        if let Some(f) = inv.faults.get(&s.id) {
            o.set(
                "fail",
                J::s(match f {
                    FailMode::Nothing => "nothing",
                    FailMode::All => "all",
                    FailMode::Some => "some",
                    FailMode::Interrupt => "interrupt",
                }),
            );
            if *f == FailMode::Interrupt {
                o.set("signal", J::i(2));
                o.set("signal_shell", J::Bool(true));
            }
        }
        if let Some(c) = inv.exit_codes.get(&s.id) {
            o.set("exit", J::i(*c));
        }
        if let Some((sig, shell)) = inv.signals.get(&s.id) {
            o.set("signal", J::i(*sig));
            o.set("signal_shell", J::Bool(*shell));
        }
        if s.discovers {
            if let Some(d) = &s.depfile {
                if !inv.faults.contains_key(&s.id) {
                    if s.extra_reads.is_empty() && rng.chance(1, 2) {
                        // a compiler that has nothing to report may write no depfile at all
                        o.set("depfile_remove", J::s(d));
                    } else {
                        o.set("depfile", J::strs([d.clone(), depfile_text(s, rng)]));
                    }
                }
                if s.msvc {
                    o.set("plain_output", J::strs([format!("{}: compiling", s.id)]));
                }
            } else if s.msvc {
                // a failing compiler prints its include notes too
                o.set("showincludes", J::strs(s.extra_reads.iter().cloned()));
                o.set("plain_output", J::strs([format!("{}: compiling", s.id)]));
            }
        }
        if let Some(spec) = inv.outputs.get(&s.id) {
            o.set(
                "output",
                J::Arr(spec.chunks.iter().map(|(fd, len, sl)| J::obj().with("fd", J::i(*fd)).with("len", J::i(*len)).with("sleep_ms", J::i(*sl))).collect()),
            );
            o.set("output_final_newline", J::Bool(spec.final_newline));
        }
        lines.push(o.dump());
    }
    std::fs::create_dir_all(w.dir.join(".n2v")).unwrap();
    std::fs::write(w.dir.join(".n2v/plan"), lines.join("\n") + "\n").unwrap();
    let _ = std::fs::remove_file(w.dir.join(".n2v/events"));
}

fn parse_events(dir: &Path) -> Vec<AgentEv> {
    let text = std::fs::read_to_string(dir.join(".n2v/events")).unwrap_or_default();
    let mut v = Vec::new();
    for l in text.lines() {
        let p: Vec<&str> = l.splitn(6, ' ').collect();
        if p.len() < 4 {
            continue;
        }
        v.push(AgentEv {
            ver: p.get(5).unwrap_or(&"").to_string(),
            kind: p[0].chars().next().unwrap_or('?'),
            step: p[1].to_string(),
            pid: p[2].parse().unwrap_or(0),
            ns: p[3].parse().unwrap_or(0),
            info: p.get(4).unwrap_or(&"").to_string(),
        });
    }
    v.sort_by_key(|e| e.ns);
    v
}

/// The closing line of a successful invocation, as far as the property words it: `ran N tasks` with
/// N the number of commands that completed successfully, `no work to do` exactly when N is zero.
/// (The rest of the line's wording is n2's business.)
pub fn summary_ok(line: &str, n: usize) -> bool {
    let says_none = line.contains("no work to do");
    if n == 0 {
        return says_none;
    }
    let key = format!("ran {} task", n);
    match line.find(&key) {
        Some(at) => {
            // "ran 1 task" must not match inside "ran 12 tasks"; the char before must not be a digit either
            let before_ok = at == 0 || !line.as_bytes()[at - 1].is_ascii_alphanumeric();
            before_ok && !says_none
        }
        None => false,
    }
}

/// True when n2 runs under a sanitizer or valgrind (these reserve huge address ranges).
pub fn wants_address_space(env: &RealEnv) -> bool {
    let n = env.n2.to_string_lossy();
    n.contains("n2-asan") || n.contains("n2-tsan") || !env.wrapper.is_empty()
}

/// Address-space limit of the n2 child, to be called between fork and exec: a 6 GB soft cap (a runaway
/// allocation in n2 must not take the machine down), lifted entirely for sanitizer builds and valgrind.
pub unsafe fn child_address_space(unlimited: bool) {
    let mut lim = libc::rlimit { rlim_cur: 0, rlim_max: 0 };
    if libc::getrlimit(libc::RLIMIT_AS, &mut lim) != 0 {
        return;
    }
    if unlimited {
        lim.rlim_cur = lim.rlim_max;
    } else {
        let cap: libc::rlim_t = 6 << 30;
        lim.rlim_cur = if lim.rlim_max == libc::RLIM_INFINITY { cap } else { cap.min(lim.rlim_max) };
    }
    libc::setrlimit(libc::RLIMIT_AS, &lim);
}

/// Run the real n2 once.
pub fn run_real(env: &RealEnv, w: &World, inv: &RInv) -> ROut {
    let t0 = Instant::now();
    let mut args: Vec<String> = inv.pre_args.clone();
    if let Some(j) = inv.j {
        args.push("-j".into());
        args.push(j.to_string());
    }
    if let Some(k) = inv.k {
        args.push("-k".into());
        args.push(k.to_string());
    }
    if inv.adopt {
        args.extend(["-d".to_string(), "ninja_compat".to_string(), "-t".to_string(), "restat".to_string()]);
    }
    if inv.verbose {
        args.push("-v".into());
    }
    args.extend(inv.targets.iter().cloned());
    let (prog, full_args): (PathBuf, Vec<String>) = if env.wrapper.is_empty() {
        (env.n2.clone(), args)
    } else {
        let mut a: Vec<String> = env.wrapper[1..].to_vec();
        a.push(env.n2.to_string_lossy().into_owned());
        a.extend(args);
        (PathBuf::from(&env.wrapper[0]), a)
    };
    let cwd = match &inv.run_in {
        Some(d) => w.dir.join(d),
        None => w.dir.clone(),
    };
    let mut cmd = Command::new(prog);
    cmd.args(&full_args).current_dir(&cwd).stdin(Stdio::null()).stdout(Stdio::piped()).stderr(Stdio::piped());
    cmd.env("RUST_BACKTRACE", "0");
    // sanitizer builds of n2: reports are fatal and recognisable by exit status
    cmd.env("ASAN_OPTIONS", "detect_leaks=0:exitcode=98:abort_on_error=0");
    cmd.env("TSAN_OPTIONS", "exitcode=66:halt_on_error=1");
    // own process group, so that stragglers can be reaped
    unsafe {
        use std::os::unix::process::CommandExt;
        let unlimited = wants_address_space(env);
        cmd.pre_exec(move || {
            libc::setpgid(0, 0);
            // A check started as a background job of a non-interactive shell inherits SIGINT/SIGQUIT
            // set to "ignore", and so would n2 and every command: give n2 the dispositions it has
            // when a user runs it from a terminal.
            libc::signal(libc::SIGINT, libc::SIG_DFL);
            libc::signal(libc::SIGQUIT, libc::SIG_DFL);
            libc::signal(libc::SIGHUP, libc::SIG_DFL);
            libc::signal(libc::SIGPIPE, libc::SIG_DFL);
            child_address_space(unlimited);
            Ok(())
        });
    }
    let mut child = cmd.spawn().expect("spawn n2");
    let pid = child.id() as i32;
    let mut so = child.stdout.take().unwrap();
    let mut se = child.stderr.take().unwrap();
    let t_out = std::thread::spawn(move || {
        let mut b = Vec::new();
        let _ = so.read_to_end(&mut b);
        b
    });
    let t_err = std::thread::spawn(move || {
        let mut b = Vec::new();
        let _ = se.read_to_end(&mut b);
        b
    });
    // (valgrind and sanitizer builds are several times slower)
    let deadline = Instant::now() + Duration::from_secs(inv.timeout_s * if wants_address_space(env) { 5 } else { 1 });
    let mut timed_out = false;
    let mut sigint_ns: Option<u64> = None;
    let status = loop {
        match child.try_wait() {
            Ok(Some(st)) => break Some(st),
            Ok(None) => {
                if let (Some(ms), None) = (inv.sigint_after_ms, sigint_ns) {
                    if t0.elapsed().as_millis() as u64 >= ms {
                        let mut ts = libc::timespec { tv_sec: 0, tv_nsec: 0 };
                        unsafe { libc::clock_gettime(libc::CLOCK_MONOTONIC, &mut ts) };
                        sigint_ns = Some(ts.tv_sec as u64 * 1_000_000_000 + ts.tv_nsec as u64);
                        unsafe { libc::kill(-pid, libc::SIGINT) };
                    }
                }
                if Instant::now() > deadline {
                    timed_out = true;
                    unsafe { libc::kill(-pid, libc::SIGKILL) };
                    let _ = child.wait();
                    break None;
                }
                std::thread::sleep(Duration::from_micros(300));
            }
            Err(_) => break None,
        }
    };
    // stragglers: commands n2 left running (budget reached, error) keep writing; wait for them
    let wait_until = Instant::now() + Duration::from_secs(5);
    loop {
        let ev = parse_events(&w.dir);
        let mut open: BTreeSet<(String, u32)> = BTreeSet::new();
        for e in &ev {
            match e.kind {
                'S' => {
                    open.insert((e.step.clone(), e.pid));
                }
                'E' => {
                    open.remove(&(e.step.clone(), e.pid));
                }
                _ => {}
            }
        }
        // an agent killed by a signal never logs E; check liveness by pid
        open.retain(|(_, p)| unsafe { libc::kill(*p as i32, 0) } == 0);
        if open.is_empty() || Instant::now() > wait_until {
            break;
        }
        std::thread::sleep(Duration::from_millis(2));
    }
    unsafe { libc::kill(-pid, libc::SIGKILL) };
    let stdout = t_out.join().unwrap_or_default();
    let stderr = t_err.join().unwrap_or_default();
    use std::os::unix::process::ExitStatusExt;
    ROut {
        exit: status.and_then(|s| s.code()),
        signal: status.and_then(|s| s.signal()),
        timed_out,
        stdout,
        stderr,
        events: parse_events(&w.dir),
        wall_ms: t0.elapsed().as_millis() as u64,
        sigint_ns,
    }
}

/// After an invocation: rescan the disk and update the model's record store
/// the way a correct n2 would have (a record per successful completion with
/// all files present), then cross-check with what the log file contains.
/// Returns a description of a mismatch between the log and the model, if any.
pub fn sync_after(w: &mut World, loaded_proj: &Project, inv: &RInv, out: &ROut) -> Option<String> {
    // the generator may have switched generations
    let gen_ok = out.finished_ok().iter().any(|s| loaded_proj.step_index(s).map(|i| loaded_proj.steps[i].effect == Effect::Generator).unwrap_or(false));
    let mut projs: Vec<Project> = vec![loaded_proj.clone()];
    if gen_ok && !w.next_gens.is_empty() {
        let np = w.next_gens.remove(0);
        for (name, text) in np.render(&w.ropts) {
            w.texts.insert(name, text);
        }
        w.proj = np.clone();
        projs.push(np);
    }
    scan(w);
    // records for successful completions, in completion order
    let oks: Vec<(usize, &AgentEv)> = out.events.iter().enumerate().filter(|(_, e)| e.kind == 'E' && e.info == "ok").collect();
    // When the build failed, n2 stops collecting completions at some point after the first
    // failure: commands that finish from then on are orphans whose record may or may not exist.
    let first_fail_ns: Option<u64> = if out.exit != Some(0) {
        out.events.iter().filter(|e| e.kind == 'E' && e.info != "ok").map(|e| e.ns).min().or_else(|| out.events.iter().map(|e| e.ns).max())
    } else {
        None
    };
    for (_, e) in &oks {
        match first_fail_ns {
            Some(t) if e.ns + 250_000_000 >= t => {
                w.uncertain.insert(e.step.clone());
            }
            _ => {
                w.uncertain.remove(&e.step);
            }
        }
    }
    for (ei, e) in &oks {
        // the generation a completion belongs to is the one whose command text (version) it was started with
        let matches = |p: &Project| p.step_index(&e.step).map(|i| format!("v{}", p.steps[i].ver) == e.ver).unwrap_or(false);
        let order: Vec<&Project> = if projs.len() > 1 && matches(&projs[1]) && !matches(&projs[0]) { vec![&projs[1]] } else { vec![&projs[0], projs.last().unwrap()] };
        for p in order {
            if let Some(si) = p.step_index(&e.step) {
                let step = &p.steps[si];
                let reported: Option<&[String]> = if step.discovers { Some(&step.extra_reads) } else { None };
                if let Some(mut rec) = expected_record(p, step, reported, &w.st.disk) {
                    // The record holds the mtimes seen when the step completed.  If a file it
                    // covers was rewritten later in this invocation (its producer completed
                    // again after a manifest reload), the recorded state is no longer the
                    // present one: model that as a signature that cannot match.
                    let r = Rel::new(p);
                    let rewritten_later = rec.sig.ins.iter().chain(rec.sig.deps.iter()).any(|(f, _)| {
                        oks.iter().any(|(ej, e2)| ej > ei && projs.iter().any(|q| q.step_index(&e2.step).map(|k| q.steps[k].all_outs().any(|o| o == f)).unwrap_or(false)))
                    });
                    let _ = r;
                    if rewritten_later {
                        if let Some(first) = rec.sig.ins.first_mut() {
                            first.1 = 0;
                        } else if let Some(first) = rec.sig.outs.first_mut() {
                            first.1 = 0;
                        }
                    }
                    w.st.records.push(rec);
                }
                break;
            }
        }
    }
    if inv.adopt && out.exit == Some(0) {
        // restat: every wanted dirty step got a record of the present state
        let rel = Rel::new(&w.proj);
        let t = w.proj.effective_targets(&inv.targets);
        let wanted = rel.closure(&w.proj, &t);
        if let Some(order) = topo(&rel, &wanted) {
            for si in order {
                let s = &w.proj.steps[si];
                if s.phony {
                    continue;
                }
                if dirty_reason(&w.proj, &rel, &w.st.records, si, &w.st.disk) != DirtyWhy::Clean {
                    if let Some(rec) = expected_record(&w.proj, s, None, &w.st.disk) {
                        w.st.records.push(rec);
                    }
                }
            }
        }
    }
    // cross-check: the log must be well-formed
    let bytes = std::fs::read(w.db_path()).unwrap_or_default();
    let parsed = crate::dbfmt::parse_db(&bytes);
    if !bytes.is_empty() && (parsed.malformed.is_some() || parsed.torn) {
        return Some(format!("log not well-formed: malformed={:?} torn={}", parsed.malformed, parsed.torn));
    }
    None
}
