fn main() {
    eprintln!("n2v-agent: not built yet");
    std::process::exit(3);
}
