//! n2v-agent: the command that black-box (E2) build steps execute.
//!
//!   n2v-agent <step-id> v<ver> [free text...]
//!
//! It looks its step up in `.n2v/plan` (JSON lines, written by the harness
//! before every invocation), checks the environment n2 gave it, logs
//! `S`/`E` events to `.n2v/events` (O_APPEND, one write each; S after it has
//! started, E before it exits, so a logged interval lies inside the true one),
//! performs the step's effect and exits (or kills itself) as planned.
#[path = "json.rs"]
mod json;
#[path = "rng.rs"]
mod rng;
#[path = "agent_stream.rs"]
mod agent_stream;
use agent_stream::make_stream;

use json::J;
use std::io::{Read, Write};
use std::os::unix::fs::OpenOptionsExt;

fn mono_ns() -> u64 {
    let mut ts = libc::timespec { tv_sec: 0, tv_nsec: 0 };
    unsafe { libc::clock_gettime(libc::CLOCK_MONOTONIC, &mut ts) };
    ts.tv_sec as u64 * 1_000_000_000 + ts.tv_nsec as u64
}

fn log_event(line: &str) {
    if let Ok(mut f) = std::fs::OpenOptions::new().append(true).create(true).custom_flags(libc::O_CLOEXEC).open(".n2v/events") {
        let _ = f.write_all(line.as_bytes());
    }
}

/// Content of a file as the model sees it: 16 hex digits -> that number, else FNV of the bytes.
fn file_content(name: &str) -> Option<u64> {
    let mut b = Vec::new();
    std::fs::File::open(name).ok()?.read_to_end(&mut b).ok()?;
    if b.len() == 17 && b[16] == b'\n' {
        if let Ok(s) = std::str::from_utf8(&b[..16]) {
            if let Ok(v) = u64::from_str_radix(s, 16) {
                return Some(v);
            }
        }
    }
    Some(rng::fnv(&b))
}

fn strs(j: Option<&J>) -> Vec<String> {
    j.and_then(|a| a.as_arr()).map(|a| a.iter().filter_map(|x| x.as_str().map(|s| s.to_string())).collect()).unwrap_or_default()
}

fn main() {
    let args: Vec<String> = std::env::args().collect();
    let id = args.get(1).cloned().unwrap_or_default();
    let pid = std::process::id();
    // ---- find the plan entry
    let plan_text = std::fs::read_to_string(".n2v/plan").unwrap_or_default();
    let mut header: Option<J> = None;
    let mut step: Option<J> = None;
    for line in plan_text.lines() {
        if let Ok(j) = J::parse(line) {
            if j.get("project_dir").is_some() {
                header = Some(j);
            } else if j.get("id").and_then(|x| x.as_str()) == Some(id.as_str()) {
                // the version argument selects among generations of the same step
                let ver_ok = match (j.get("ver").and_then(|x| x.as_str()), args.get(2)) {
                    (Some(v), Some(a)) => v == a,
                    _ => true,
                };
                if ver_ok || step.is_none() {
                    step = Some(j);
                }
            }
        }
    }
    let Some(step) = step else {
        log_event(&format!("X {} {} {} no-plan-entry\n", id, pid, mono_ns()));
        eprintln!("n2v-agent: no plan entry for {:?} in {:?}", id, std::env::current_dir());
        std::process::exit(97);
    };
    // ---- environment checks (C16)
    let mut problems: Vec<String> = Vec::new();
    if let Some(h) = &header {
        if let Some(want) = h.get("project_dir").and_then(|x| x.as_str()) {
            let cwd = std::env::current_dir().map(|p| p.to_string_lossy().into_owned()).unwrap_or_default();
            if cwd != want {
                problems.push(format!("cwd={}", cwd));
            }
        }
    }
    // open descriptors: only 0,1,2 (plus the one used for listing)
    if let Ok(rd) = std::fs::read_dir("/proc/self/fd") {
        let mut extra = Vec::new();
        for e in rd.flatten() {
            let n: i32 = e.file_name().to_string_lossy().parse().unwrap_or(-1);
            if n > 2 {
                let target = std::fs::read_link(e.path()).map(|p| p.to_string_lossy().into_owned()).unwrap_or_default();
                if !target.contains("/proc/") {
                    extra.push(format!("{}->{}", n, target));
                }
            }
        }
        if !extra.is_empty() {
            problems.push(format!("leaked-fds={}", extra.join(",")));
        }
    }
    let link = |n: i32| std::fs::read_link(format!("/proc/self/fd/{}", n)).map(|p| p.to_string_lossy().into_owned()).unwrap_or_default();
    if link(0) != "/dev/null" {
        problems.push(format!("stdin={}", link(0)));
    } else {
        let mut b = [0u8; 1];
        if std::io::stdin().read(&mut b).unwrap_or(1) != 0 {
            problems.push("stdin-not-eof".into());
        }
    }
    if link(1) != link(2) || !link(1).starts_with("pipe:") {
        problems.push(format!("stdout={} stderr={}", link(1), link(2)));
    }
    let outs = strs(step.get("outs"));
    for o in &outs {
        if let Some(parent) = std::path::Path::new(o).parent() {
            if !parent.as_os_str().is_empty() && !parent.is_dir() {
                problems.push(format!("outdir-missing={}", o));
            }
        }
    }
    if let Some(r) = step.get("rsp").and_then(|r| r.as_arr()) {
        let path = r[0].as_str().unwrap_or("");
        let want = r[1].as_str().unwrap_or("");
        match std::fs::read_to_string(path) {
            Ok(got) if got == want => {}
            Ok(got) => problems.push(format!("rspfile-content={:?}", got)),
            Err(_) => problems.push("rspfile-missing".into()),
        }
    }
    // the command line we were given must be the planned one
    if let Some(want) = step.get("argv").and_then(|a| a.as_arr()) {
        let want: Vec<String> = want.iter().filter_map(|x| x.as_str().map(|s| s.to_string())).collect();
        if args[1..] != want[..] {
            problems.push(format!("argv={:?}", &args[1..]));
        }
    }
    let checks = if problems.is_empty() { "ok".to_string() } else { problems.join(";").replace([' ', '\n'], "_") };
    let ver = args.get(2).cloned().unwrap_or_default();
    log_event(&format!("S {} {} {} {} {}\n", id, pid, mono_ns(), checks, ver));

    let sleep_ms = step.get("sleep_ms").and_then(|x| x.as_i64()).unwrap_or(0) as u64;
    if sleep_ms > 0 {
        std::thread::sleep(std::time::Duration::from_millis(sleep_ms));
    }

    // ---- output to stdout/stderr (C16): chunks of a deterministic stream
    if let Some(chunks) = step.get("output").and_then(|o| o.as_arr()) {
        let total: usize = chunks.iter().map(|c| c.get("len").and_then(|x| x.as_i64()).unwrap_or(0) as usize).sum();
        let final_nl = step.get("output_final_newline").map(|b| *b == J::Bool(true)).unwrap_or(true);
        let stream = make_stream(&id, total, final_nl);
        let mut pos = 0;
        for c in chunks {
            let len = c.get("len").and_then(|x| x.as_i64()).unwrap_or(0) as usize;
            let fd = c.get("fd").and_then(|x| x.as_i64()).unwrap_or(1);
            let end = (pos + len).min(stream.len());
            let piece = &stream[pos..end];
            pos = end;
            let mut off = 0;
            while off < piece.len() {
                let n = unsafe { libc::write(fd as i32, piece[off..].as_ptr() as *const libc::c_void, piece.len() - off) };
                if n <= 0 {
                    break;
                }
                off += n as usize;
            }
            let s = c.get("sleep_ms").and_then(|x| x.as_i64()).unwrap_or(0) as u64;
            if s > 0 {
                std::thread::sleep(std::time::Duration::from_millis(s));
            }
        }
    }
    for inc in strs(step.get("showincludes")) {
        // nested includes are indented by one more space per level
        let depth = (rng::fnv(inc.as_bytes()) % 4) as usize;
        println!("Note: including file: {}{}", " ".repeat(depth), inc);
    }
    for line in strs(step.get("plain_output")) {
        println!("{}", line);
    }

    // ---- effect
    let fail = step.get("fail").and_then(|x| x.as_str()).map(|s| s.to_string());
    let writes = step.get("writes").and_then(|x| x.as_i64()).unwrap_or(outs.len() as i64) as usize;
    let limit = match fail.as_deref() {
        Some("nothing") | Some("interrupt") => 0,
        Some("some") => 1.min(writes),
        _ => writes,
    };
    let cmd = step.get("cmd").and_then(|x| x.as_str()).unwrap_or("").to_string();
    let reads = strs(step.get("reads"));
    let wic = step.get("wic").map(|b| *b == J::Bool(true)).unwrap_or(false);
    let mut h0 = rng::fnv(cmd.as_bytes());
    if let Some(r) = step.get("rsp").and_then(|r| r.as_arr()) {
        // a command consumes the response file it finds, not the one it was promised
        let path = r[0].as_str().unwrap_or("");
        let on_disk = std::fs::read(path).unwrap_or_default();
        h0 = rng::fnv_combine(h0, rng::fnv(path.as_bytes()));
        h0 = rng::fnv_combine(h0, rng::fnv(&on_disk));
    }
    for f in &reads {
        h0 = rng::fnv_combine(h0, rng::fnv(f.as_bytes()));
        h0 = rng::fnv_combine(h0, file_content(f).unwrap_or(0xdead));
    }
    let gen_next = step.get("gen_next").and_then(|x| x.as_str()).map(|s| s.to_string());
    let manifest = header.as_ref().and_then(|h| h.get("manifest")).and_then(|x| x.as_str()).unwrap_or("build.ninja").to_string();
    for (i, o) in outs.iter().enumerate() {
        if i >= limit {
            break;
        }
        if *o == manifest {
            if let Some(src) = &gen_next {
                // generator: install the next generation (and its included files)
                if let Ok(list) = std::fs::read_to_string(src) {
                    for entry in list.lines() {
                        if let Some((name, from)) = entry.split_once('\t') {
                            if let Ok(text) = std::fs::read(from) {
                                let _ = std::fs::write(name, text);
                            }
                        }
                    }
                }
                let _ = std::fs::remove_file(src);
            } else {
                // touch
                if let Ok(t) = std::fs::read(o) {
                    let _ = std::fs::write(o, t);
                }
            }
            continue;
        }
        let c = rng::fnv_combine(h0, rng::fnv(o.as_bytes()));
        if wic && file_content(o) == Some(c) {
            continue;
        }
        let old_mtime = std::fs::metadata(o).and_then(|m| m.modified()).ok();
        let _ = std::fs::write(o, format!("{:016x}\n", c));
        // a rewritten output must not keep its old mtime
        if let (Some(old), Ok(new)) = (old_mtime, std::fs::metadata(o).and_then(|m| m.modified())) {
            if new <= old {
                if let Ok(f) = std::fs::File::options().write(true).open(o) {
                    let _ = f.set_modified(old + std::time::Duration::from_nanos(1_000_000));
                }
            }
        }
    }
    if fail.is_none() {
        if let Some(t) = step.get("touch").and_then(|x| x.as_str()) {
            if let Ok(f) = std::fs::File::options().write(true).open(t) {
                let old = f.metadata().and_then(|m| m.modified()).ok();
                let mut new = std::time::SystemTime::now();
                if let Some(old) = old {
                    if new <= old {
                        new = old + std::time::Duration::from_nanos(1_000_000);
                    }
                }
                let _ = f.set_modified(new);
            }
        }
        if let Some(d) = step.get("depfile").and_then(|d| d.as_arr()) {
            let (path, text) = (d[0].as_str().unwrap_or(""), d[1].as_str().unwrap_or(""));
            // a compiler cache / wrapper may keep the real file elsewhere and leave a symbolic link
            let h = rng::fnv(text.as_bytes()) ^ rng::fnv(path.as_bytes());
            // (only for plain relative paths: the link target is computed lexically)
            if h % 5 == 0 && !path.contains("..") && !path.starts_with('/') {
                let real = format!(".n2v/dep-{:016x}.d", h);
                let _ = std::fs::write(&real, text);
                let _ = std::fs::remove_file(path);
                let depth = path.matches('/').count();
                let target = format!("{}{}", "../".repeat(depth), real);
                if std::os::unix::fs::symlink(&target, path).is_err() {
                    let _ = std::fs::write(path, text);
                }
            } else {
                // (replace a link left by an earlier run rather than writing through it)
                let _ = std::fs::remove_file(path);
                let _ = std::fs::write(path, text);
            }
        }
        if let Some(d) = step.get("depfile_remove").and_then(|d| d.as_str()) {
            let _ = std::fs::remove_file(d);
        }
    }
    log_event(&format!("E {} {} {} {} {}\n", id, pid, mono_ns(), fail.as_deref().unwrap_or("ok"), ver));
    let _ = std::io::stdout().flush();
    if let Some(sig) = step.get("signal").and_then(|x| x.as_i64()) {
        unsafe {
            // die by the signal, parent shell included when asked to
            libc::signal(sig as i32, libc::SIG_DFL);
            if step.get("signal_shell").map(|b| *b == J::Bool(true)).unwrap_or(false) {
                libc::kill(libc::getppid(), sig as i32);
            }
            libc::kill(libc::getpid(), sig as i32);
        }
        std::thread::sleep(std::time::Duration::from_millis(200));
    }
    let code = step.get("exit").and_then(|x| x.as_i64()).unwrap_or(if fail.is_some() { 1 } else { 0 });
    std::process::exit(code as i32);
}

