//! C13 (E4): coverage-guided paths against the reference canonicaliser.
#![no_main]
use libfuzzer_sys::fuzz_target;

fuzz_target!(|data: &[u8]| {
    let Ok(p) = std::str::from_utf8(data) else { return };
    if p.is_empty() || p.len() > 2048 || p.contains('\0') {
        return;
    }
    let mut s = p.to_string();
    n2::canon::canonicalize_path(&mut s);
    let expect = n2v::ap::canon_ref(p);
    assert!(s == expect, "VIOLATION property=C13 canon({:?}) = {:?}, reference {:?}", p, s, expect);
    let mut t = s.clone();
    n2::canon::canonicalize_path(&mut t);
    assert!(t == s, "VIOLATION property=C13 not idempotent on {:?}", p);
    assert!(s.len() <= p.len(), "VIOLATION property=C13 lengthened {:?}", p);
});
