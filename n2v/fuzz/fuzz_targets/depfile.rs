//! C15/C12 (E4): coverage-guided depfile bytes: totality and diagnostic shape.
#![no_main]
use libfuzzer_sys::fuzz_target;

fuzz_target!(|data: &[u8]| {
    if std::str::from_utf8(data).is_err() || data.len() > 4096 {
        return;
    }
    match n2::verif::facade::parse_depfile_bytes(data.to_vec()) {
        Ok(_) => {}
        Err(msg) => {
            assert!(msg.starts_with("parse error: ") && msg.ends_with("^\n"), "VIOLATION property=C15 malformed diagnostic {:?}", msg);
        }
    }
});
