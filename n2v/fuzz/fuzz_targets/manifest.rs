//! C12 (E4): coverage-guided manifest bytes.  libFuzzer's panic hook aborts on any panic, so a
//! panic, an ub_check/ASan report or a malformed diagnostic all end the run with a crash artifact.
#![no_main]
use libfuzzer_sys::fuzz_target;

fuzz_target!(|data: &[u8]| {
    // non-UTF-8 input is the recorded known finding F15 (n2 keeps text in `str` unvalidated)
    if std::str::from_utf8(data).is_err() || data.len() > 4096 {
        return;
    }
    // include/subninja would read whatever lies around in the working directory
    if data.windows(7).any(|w| w == b"include") || data.windows(8).any(|w| w == b"subninja") {
        return;
    }
    match n2::load::verif_load("build.ninja", Some(data.to_vec())) {
        Ok(_) => {}
        Err(e) => {
            let msg = format!("{}", e);
            assert!(!msg.is_empty(), "VIOLATION property=C12 empty diagnostic");
            if let Some(rest) = msg.strip_prefix("parse error: ") {
                let lines: Vec<&str> = rest.split('\n').collect();
                assert!(lines.len() >= 3 && lines[lines.len() - 2].trim_start_matches(' ') == "^", "VIOLATION property=C12 malformed parse diagnostic {:?}", msg);
            }
        }
    }
});
