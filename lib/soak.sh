#!/bin/bash
# Silence runs: every check at several seeds (and optionally a budget scale / tier).
#   lib/soak.sh "1 2 3 7 1000" [tier] [scale] [props...]
cd "$(dirname "$0")/.."
seeds=${1:-"1 2 3 7 1000"}; tier=${2:-quick}; scale=${3:-1}; shift 3 2>/dev/null
props=${@:-C01 C02 C03 C04 C05 C06 C07 C08 C09 C10 C11 C12 C13 C14 C15 C16 C17 C18 C19 C20}
mkdir -p .build/soak
for s in $seeds; do
  for p in $props; do
    VERIF_SEED=$s VERIF_BUDGET_SCALE=$scale ./check $p --tier $tier > .build/soak/$p-$tier-$s.log 2>&1
    rc=$?
    echo "seed=$s $p $tier exit=$rc $(grep -c '^VIOLATION' .build/soak/$p-$tier-$s.log) violation(s) $(grep -c '^INCONCLUSIVE' .build/soak/$p-$tier-$s.log) inconclusive | $(grep ' seed=' .build/soak/$p-$tier-$s.log | tail -1 | cut -c1-160)"
    if [ $rc -ne 0 ]; then mkdir -p .build/soak/replays-$p-$s; cp -r replays/$p/* .build/soak/replays-$p-$s/ 2>/dev/null; fi
  done
done
