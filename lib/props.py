"""Per-property stage table for ./check (engines, budgets, evidence rules)."""

SIM_ASSUME = [
    "E1: n2's real library code runs in-process; only Runner::start/wait (process spawn and completion delivery) are replaced by the scripted executor behind cargo feature `verif`",
    "file system is tmpfs under /dev/shm; mtimes are set explicitly from a logical clock",
    "the abstract project (generator ground truth) and the reference model in /verif/n2v/src/{ap,model}.rs are correct",
]


def sim(quick_s, thorough_s):
    return {"engine": "sim", "variant": "verif", "budget_ms": {"quick": quick_s * 1000, "thorough": thorough_s * 1000}}


PROPS = {
    "C01": {
        "stages": [sim(20, 420)],
        "rule": "random DAG projects (2-14 steps, multi-output, order-only, validation, phony, pools, optional generated manifest) x initial state (fresh / built+edited) x -j/-k/targets/fault plan x completion order (systematic DFS over all completion orders when <= 5 (quick) / 7 (thorough) commands run, else FIFO/LIFO/random/hold policies); non-trivial = at least 2 commands ran and an ordering edge connects two steps that both ran; distinct by hash(graph shape, configuration, start/finish event sequence)",
        "must_observe": ["events", "dfs_complete_cases", "validation_pairs_checked"],
        "assumptions": SIM_ASSUME,
    },
    "C04": {
        "stages": [sim(20, 360)],
        "rule": "wide random DAGs (4-24 steps) with 0-3 pools of depth 0-3 plus console, -j 1-8, failures that free slots, policies that keep pools full; online monitor at every start (|running| <= j, per-pool <= depth, using the generator's pool assignment) and at every scheduler iteration (n2's own counters == harness running set); non-trivial = a limit was binding at some instant (something queued while -j or its pool was full) and commands ran; distinct by hash(shape, config, event sequence)",
        "must_observe": ["events", "limit_binding_instants", "undeclared_pool_cases"],
        "assumptions": SIM_ASSUME,
    },
    "C05": {
        "stages": [sim(20, 420)],
        "rule": "random DAGs x fault plans (1-3 failing steps: write nothing / all / some outputs then fail; interrupts) x -k in {1,2,3,100} x -j x completion orders (systematic for small cases); online containment and budget monitors, exit status check, and a fault-free follow-up invocation whose started set must equal the reference model's prediction; non-trivial = at least one failure, one step blocked by it and one unblocked step that ran",
        "must_observe": ["events", "followups_checked"],
        "assumptions": SIM_ASSUME,
    },
    "C06": {
        "stages": [sim(20, 360)],
        "rule": "random DAGs incl. injected ordering cycles (must be rejected with a real cycle listed, nothing of the cycle started) and validation-only cycles (must be accepted), generated manifests settled in phase 1, all -j/-k/pool combinations, systematic completion orders on small cases; hang = wait with nothing running / scheduler iterations without events beyond 4*steps+16 / panic; non-trivial = >= 3 steps with a step waiting for >= 2 producers, or a cyclic case",
        "must_observe": ["events", "cyclic_cases", "validation_cycle_cases"],
        "assumptions": SIM_ASSUME,
    },
    "C18": {
        "stages": [sim(20, 300)],
        "rule": "random DAGs with 0-3 default statements, command-line target subsets of size 0-4 under random canon-equivalent spellings; started set must equal the model's dirty steps of the closure (all edge kinds), no step outside the closure may even be considered by the scheduler (state snapshot at every iteration); non-trivial = closure is a strict non-empty subset of the steps",
        "must_observe": ["events"],
        "assumptions": SIM_ASSUME,
    },
    "C19": {
        "stages": [sim(20, 300)],
        "rule": "C01/C05 workloads with the progress monitor on: at every Progress::update and scheduler iteration total == non-phony wanted steps, counts == histogram of per-step states, count[running] == executor's running set, done+failed monotone, task_started/finished bracket executor events, final `ran N` == successful completions; non-trivial = execution with a wanted phony step, an up-to-date step and a step that ran",
        "must_observe": ["events", "progress_updates_observed"],
        "assumptions": SIM_ASSUME,
    },
    "C02": {
        "stages": [sim(25, 480)],
        "rule": "histories of 3-12 operations over generated projects (2-10 steps, discovered deps, restat-like and non-writing commands): edit/touch/delete sources, delete/touch/overwrite outputs, change command text or rspfile content, add/remove steps and edges, change a command's include set (with an edit of a file it reads), builds of random target subsets with random -j/-k/completion policy and failing commands; after every successful invocation the content of every output in the closure of the requested targets is compared with the reference model's clean-build content, and the started set must contain the model's dirty set; non-trivial = history with >= 2 builds and an edit in between that dirties a strict non-empty subset of the wanted steps; distinct by hash(operations, event sequences)",
        "must_observe": ["events", "outputs_compared"],
        "assumptions": SIM_ASSUME + ["a content change comes with an mtime change (the harness's logical clock), nothing writes the tree during an invocation, phony outputs are never dirtying inputs"],
    },
    "C03": {
        "stages": [sim(25, 480)],
        "rule": "C02's histories restricted to projects in which every declared input and output exists after a build (effects: write, write-if-changed, touch-own-input), plus an immediate no-edit rebuild after successful builds and `-t restat` (adopt) episodes; the started set of every invocation must equal the reference model's prediction exactly (manifest dirty rule written from the property statement); non-trivial as C02",
        "must_observe": ["events", "noop_rebuilds_checked", "restat_episodes"],
        "assumptions": SIM_ASSUME,
    },
    "C07": {
        "level": "fault_enumeration",
        "stages": [sim(30, 480)],
        "rule": "for generated histories (0-2 complete builds with edits, then a build that is abandoned): every db write of that build x every byte count 0..len that reaches the file (quick: all counts for records <= 12 bytes, first/last 4 and a third of the middle counts for longer ones; thorough: all), fault injected at the hook in front of every append; then a fault-free build (must load the log, run exactly the model's prediction with the record store = completely written records, and what n2 loaded per step must equal what an independent reader of the file finds), the log must then be a well-formed file, and a third build must be a no-op; non-trivial = crash strictly inside a record; distinct by (graph shape, write index, byte count)",
        "must_observe": ["crash_points", "crash_points_mid_record"],
        "assumptions": SIM_ASSUME + ["crash model: a byte prefix of what n2 appends reaches the file (no reordering/loss of earlier writes)"],
    },
    "C08": {
        "stages": [sim(25, 420)],
        "rule": "(a) record shapes: 1-40 outputs x 0-1000 discovered deps (65535/65536/65537/70000 in one case per quick run, 1 in 6 shape cases in thorough) x names of 1-3900 bytes incl. non-ASCII: build, reload (what n2 loads per step must equal what an independent reader of .n2_db finds for the latest applicable record), no-op rebuild, touch one dep, rebuild; (b,c) histories of semantics-preserving manifest rewrites (statement reordering, unrelated statements, rule renaming, command via variables, include split, path respelling) which must cause no run, and output moves / output-set changes after which old records must be unusable, judged by exact run-set comparison with the reference model; non-trivial = a rewrite/move history with a partial rebuild, or a record with >= 255 deps / >= 7 outputs / names >= 255 bytes",
        "must_observe": ["events", "shape_cases", "noop_rebuilds_checked"],
        "assumptions": SIM_ASSUME,
    },
    "C09": {
        "stages": [sim(25, 420)],
        "rule": "histories in which a command's reported dependency set grows, shrinks, overlaps declared and order-only inputs, repeats under several spellings (./x, a/../x, x), names missing files, with header edits/deletions in between; exact run-set comparison with the reference model (dep set = canonicalised, de-duplicated, minus declared dirtying inputs; replaced wholesale on success), recorded dep lists decoded from the log writes and compared, clean-build content comparison; non-trivial as C02",
        "must_observe": ["events", "noop_rebuilds_checked"],
        "assumptions": SIM_ASSUME + ["E1 hands the reported list to n2 directly; depfile/showIncludes parsing is covered by C15 and the pure stage"],
    },
    "C17": {
        "stages": [sim(25, 420)],
        "rule": "projects whose manifest is the output of a generator step with 1-3 future generations (changed commands, added/removed steps, rewired inputs); histories of generator-input edits, source/output edits, builds of random targets, failing generator; per phase the started set must equal the model's prediction for the old (phase 1) and new (phase 2) generation, a reload must happen iff a command ran in phase 1, the graph loaded after the reload must be the new text, and nothing may run after a failed regeneration; non-trivial = invocation with a reload",
        "must_observe": ["events", "invocations_with_reload"],
        "assumptions": SIM_ASSUME + ["a manifest named as a target is treated as built in phase 1 (n2's documented design); its closure is not re-examined against the new text"],
    },
}
