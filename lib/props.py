"""Per-property stage table for ./check (engines, budgets, evidence rules)."""

SIM_ASSUME = [
    "E1: n2's real library code runs in-process; only Runner::start/wait (process spawn and completion delivery) are replaced by the scripted executor behind cargo feature `verif`",
    "file system is tmpfs under /dev/shm; mtimes are set explicitly from a logical clock",
    "the abstract project (generator ground truth) and the reference model in /verif/n2v/src/{ap,model}.rs are correct",
]


PURE_ASSUME = [
    "E3: n2's real functions are called in-process through cfg-gated facades (cargo feature `verif`), built optimised with debug assertions, overflow checks and ub_checks on",
    "reference implementations / generator ground truth in /verif/n2v/src/pure and ap.rs are correct",
]


def pure(quick_s, thorough_s, variant="verif", tiers=("quick", "thorough")):
    return {"engine": "pure", "variant": variant, "budget_ms": {"quick": quick_s * 1000, "thorough": thorough_s * 1000}, "tiers": tiers}


REAL_ASSUME = [
    "E2: the real n2 binary (built from /repo's working tree, optimised, debug assertions on) runs real /bin/sh commands (`n2v-agent <step> v<ver>`) in generated project directories on tmpfs; the agents log S after they started and E before they exit, so a logged interval lies inside the true execution interval",
]


def real(quick_s, thorough_s, extra=(), tiers=("quick", "thorough"), n2="verif"):
    # process creation does not scale with cores in this sandbox (measured: ~400-600 spawns/s in total,
    # whether from 1 or 16 processes), so more shards add nothing for the black-box engine
    return {"engine": "real", "variant": "verif", "needs_n2_binary": n2, "extra": list(extra), "shards": 6,
            "budget_ms": {"quick": quick_s * 1000, "thorough": thorough_s * 1000}, "tiers": tiers}


def miri(ncases, extra=()):
    """Thorough only: a bounded enumeration under the Miri interpreter (16 processes x ncases inputs)."""
    return {"engine": "pure", "variant": "miri", "tiers": ("thorough",), "budget_ms": {"quick": 0, "thorough": 3600 * 1000},
            "extra": ["--max-cases", str(ncases), "--keep-stdout", "--utf8-only"] + list(extra)}


def fuzz(target, thorough_s):
    """Thorough only: coverage-guided libFuzzer run (cargo-fuzz, AddressSanitizer) on one target."""
    return {"engine": "fuzz", "variant": "fuzz", "target": target, "tiers": ("thorough",), "budget_ms": {"quick": 0, "thorough": thorough_s * 1000}}


def asan_pure(thorough_s):
    return pure(0, thorough_s, variant="asan", tiers=("thorough",))


def sim(quick_s, thorough_s):
    return {"engine": "sim", "variant": "verif", "budget_ms": {"quick": quick_s * 1000, "thorough": thorough_s * 1000}}


PROPS = {
    "C01": {
        "stages": [sim(20, 420), real(10, 180)],
        "rule": "random DAG projects (2-14 steps, multi-output, order-only, validation, phony, pools, optional generated manifest) x initial state (fresh / built+edited) x -j/-k/targets/fault plan x completion order (systematic DFS over all completion orders when <= 5 (quick) / 7 (thorough) commands run, else FIFO/LIFO/random/hold policies); non-trivial = at least 2 commands ran and an ordering edge connects two steps that both ran; distinct by hash(graph shape, configuration, start/finish event sequence)",
        "must_observe": ["events", "dfs_complete_cases", "validation_pairs_checked"],
        "assumptions": SIM_ASSUME,
    },
    "C04": {
        "stages": [sim(20, 360), real(8, 180), real(0, 120, tiers=("thorough",), n2="tsan")],
        "rule": "wide random DAGs (4-24 steps) with 0-3 pools of depth 0-3 plus console, -j 1-8, failures that free slots, policies that keep pools full; online monitor at every start (|running| <= j, per-pool <= depth, using the generator's pool assignment) and at every scheduler iteration (n2's own counters == harness running set); non-trivial = a limit was binding at some instant (something queued while -j or its pool was full) and commands ran; distinct by hash(shape, config, event sequence); deep-pool cases (depth 8-33 with -j above it); black box: gated sessions in which every command prints 1-33 MB and then blocks: the number of announced, unreleased commands must never exceed -j / the pool depth",
        "must_observe": ["events", "limit_binding_instants", "undeclared_pool_cases"],
        "assumptions": SIM_ASSUME,
    },
    "C05": {
        "stages": [sim(20, 420), real(14, 180)],
        "rule": "random DAGs x fault plans (1-3 failing steps: write nothing / all / some outputs then fail; interrupts) x -k in {1,2,3,100} x -j x completion orders (systematic for small cases); online containment and budget monitors, exit status check, and a fault-free follow-up invocation whose started set must equal the reference model's prediction; non-trivial = at least one failure, one step blocked by it and one unblocked step that ran; black box, gated: SIGINT sent to the process group with a known set of commands executing, some of which trap it and exit 0 without producing their output (exit 0 only if every output exists); a step whose command text exceeds the kernel's per-argument limit (cannot be spawned: exit status non-zero, independent steps still built, same again on the next invocation)",
        "must_observe": ["events", "followups_checked"],
        "assumptions": SIM_ASSUME,
    },
    "C06": {
        "stages": [sim(20, 360), real(12, 150)],
        "rule": "random DAGs incl. injected ordering cycles (must be rejected with a real cycle listed, nothing of the cycle started) and validation-only cycles (must be accepted), generated manifests settled in phase 1, all -j/-k/pool combinations, systematic completion orders on small cases; hang = wait with nothing running / scheduler iterations without events beyond 4*steps+16 / panic; non-trivial = >= 3 steps with a step waiting for >= 2 producers, or a cyclic case; black box: dependency chains of 500-2000 steps (thorough: also 60000, known finding F13) through `-t restat` must be walked without a crash; commands that leave later declared outputs unwritten; black box: depfiles left by successful commands (missing paths, directories, malformed, random bytes, ending in a backslash) must end in a decision within the watchdog",
        "must_observe": ["events", "cyclic_cases", "validation_cycle_cases"],
        "assumptions": SIM_ASSUME,
    },
    "C18": {
        "stages": [sim(20, 300), real(14, 180)],
        "rule": "random DAGs with 0-3 default statements, command-line target subsets of size 0-4 under random canon-equivalent spellings; started set must equal the model's dirty steps of the closure (all edge kinds), no step outside the closure may even be considered by the scheduler (state snapshot at every iteration); non-trivial = closure is a strict non-empty subset of the steps",
        "must_observe": ["events"],
        "assumptions": SIM_ASSUME,
    },
    "C19": {
        "stages": [sim(20, 300), real(6, 120)],
        "rule": "C01/C05 workloads with the progress monitor on: at every Progress::update and scheduler iteration total == non-phony wanted steps, counts == histogram of per-step states, count[running] == executor's running set, done+failed monotone, task_started/finished bracket executor events, final `ran N` == successful completions; non-trivial = execution with a wanted phony step, an up-to-date step and a step that ran; black box: gated pty sessions (2-14 commands, -j up to 16, pools, phony aliases, failing commands, hide_progress): whenever the build is frozen the display's D/T done, R/M running must converge to the true finished / total / executing / in-flight counts; over the whole run totals constant, finished monotone",
        "must_observe": ["events", "progress_updates_observed"],
        "assumptions": SIM_ASSUME,
    },
    "C02": {
        "stages": [sim(25, 480), real(14, 180)],
        "rule": "histories of 3-12 operations over generated projects (2-10 steps, discovered deps, restat-like and non-writing commands): edit/touch/delete sources, delete/touch/overwrite outputs, change command text or rspfile content, add/remove steps and edges, change a command's include set (with an edit of a file it reads), builds of random target subsets with random -j/-k/completion policy and failing commands; every fifth history is over a generated manifest (C17's operations), half of those in the include-split layout with a generator that rewrites the included file and leaves an unchanged top-level manifest untouched; after every successful invocation the content of every output in the closure of the requested targets is compared with the reference model's clean-build content, and the started set must contain the model's dirty set; non-trivial = history with >= 2 builds and an edit in between that dirties a strict non-empty subset of the wanted steps; distinct by hash(operations, event sequences)",
        "must_observe": ["events", "outputs_compared", "reloads_with_untouched_manifest"],
        "assumptions": SIM_ASSUME + ["a content change comes with an mtime change (the harness's logical clock), nothing writes the tree during an invocation, phony outputs are never dirtying inputs"],
    },
    "C03": {
        "stages": [sim(25, 480), real(8, 180)],
        "rule": "C02's histories restricted to projects in which every declared input and output exists after a build (effects: write, write-if-changed, touch-own-input), plus an immediate no-edit rebuild after successful builds and `-t restat` (adopt) episodes; the started set of every invocation must equal the reference model's prediction exactly (manifest dirty rule written from the property statement); non-trivial as C02",
        "must_observe": ["events", "noop_rebuilds_checked", "restat_episodes"],
        "assumptions": SIM_ASSUME,
    },
    "C07": {
        "level": "fault_enumeration",
        "stages": [sim(30, 480), real(10, 240), real(0, 120, tiers=("thorough",), n2="asan")],
        "rule": "for generated histories (0-2 complete builds with edits, then a build that is abandoned): every db write of that build x every byte count 0..len that reaches the file (quick: all counts for records <= 12 bytes, first/last 4 and a third of the middle counts for longer ones; thorough: all), fault injected at the hook in front of every append; then a fault-free build (must load the log, run exactly the model's prediction with the record store = completely written records, and what n2 loaded per step must equal what an independent reader of the file finds), the log must then be a well-formed file, and a third build must be a no-op; non-trivial = crash strictly inside a record; distinct by (graph shape, write index, byte count); logs above 8 KiB in which records end exactly at multiples of 8192 bytes (built by padding names), then no-op, edit, build, no-op",
        "must_observe": ["crash_points", "crash_points_mid_record", "aligned_log_histories"],
        "assumptions": SIM_ASSUME + ["crash model: a byte prefix of what n2 appends reaches the file (no reordering/loss of earlier writes)"],
    },
    "C08": {
        "stages": [sim(25, 420), real(6, 120)],
        "rule": "(a) record shapes: 1-40 outputs x 0-1000 discovered deps (65535/65536/65537/70000 in one case per quick run, 1 in 6 shape cases in thorough) x names of 1-3900 bytes incl. non-ASCII: build, reload (what n2 loads per step must equal what an independent reader of .n2_db finds for the latest applicable record), no-op rebuild, touch one dep, rebuild; (b,c) histories of semantics-preserving manifest rewrites (statement reordering, unrelated statements, rule renaming, command via variables, include split, path respelling) which must cause no run, and output moves / output-set changes after which old records must be unusable, judged by exact run-set comparison with the reference model; non-trivial = a rewrite/move history with a partial rebuild, or a record with >= 255 deps / >= 7 outputs / names >= 255 bytes; (d) black box: trees of 2-5 shell steps whose outputs, directories and depfile-reported headers have names that are not valid UTF-8 (Latin-1 and arbitrary bytes >= 0x80), 3-5 invocations separated by nothing / a manifest rewrite (reorder, rename rules, comments, a new step) / a source edit / a header edit: the commands that ran (each appends to a log) must be exactly the reference set",
        "must_observe": ["events", "shape_cases", "noop_rebuilds_checked", "rawname_builds_checked"],
        "assumptions": SIM_ASSUME,
    },
    "C09": {
        "stages": [sim(25, 420), pure(5, 60), real(14, 180), real(0, 120, tiers=("thorough",), n2="asan")],
        "rule": "histories in which a command's reported dependency set grows, shrinks, overlaps declared and order-only inputs, repeats under several spellings (./x, a/../x, x), names missing files, with header edits/deletions in between; exact run-set comparison with the reference model (dep set = canonicalised, de-duplicated, minus declared dirtying inputs; replaced wholesale on success), recorded dep lists decoded from the log writes and compared, clean-build content comparison; non-trivial as C02",
        "must_observe": ["events", "noop_rebuilds_checked"],
        "assumptions": SIM_ASSUME + ["E1 hands the reported list to n2 directly; depfile/showIncludes parsing is covered by C15 and the pure stage"],
    },
    "C17": {
        "stages": [sim(25, 420), real(8, 180)],
        "rule": "projects whose manifest is the output of a generator step with 1-3 future generations (changed commands, added/removed steps, rewired inputs); histories of generator-input edits, source/output edits, builds of random targets, failing generator; per phase the started set must equal the model's prediction for the old (phase 1) and new (phase 2) generation, a reload must happen iff a command ran in phase 1, the graph loaded after the reload must be the new text, and nothing may run after a failed regeneration; non-trivial = invocation with a reload",
        "must_observe": ["events", "invocations_with_reload"],
        "assumptions": SIM_ASSUME + ["a manifest named as a target is treated as built in phase 1 (n2's documented design); its closure is not re-examined against the new text"],
    },
    "C10": {
        "stages": [pure(15, 240), asan_pure(120), miri(40)],
        "rule": "abstract manifests (1-12 statements: rule/build with all four input sections and implicit outputs/default/pool/include/subninja/file-level bindings, names with spaces, colons, dollars, UTF-8, ./ ../ // components) rendered in 4 (quick) / 8 (thorough) concrete spellings each (spaces, indentation, $-newline continuations between tokens and inside values, $x vs ${x}, $-escapes, comments and blank lines, empty sections) and loaded through n2's loader; the loaded graph (steps in order, each path with role and position, command, description, depfile, deps, rspfile, pool, defaults, pools, builddir) must equal the reference evaluation of the abstract manifest and must not depend on the spelling; non-trivial = a build statement with >= 2 non-empty input sections or a path needing an escape; distinct by hash(abstract manifest) x hash(spelling)",
        "must_observe": ["abstract_manifests", "manifests_with_includes"],
        "assumptions": PURE_ASSUME,
    },
    "C11": {
        "stages": [pure(15, 240)],
        "rule": "abstract manifests biased to bindings: 6 variable names reused at file, rule and build level, self references (x = ${x}y), redefinitions after use, $in/$out/$in_newline/$out_newline, build-level overrides of rule attributes, include (shared scope) and subninja (copied scope) nesting up to depth 3; every evaluated command/description/depfile/rspfile/pool/path in the loaded graph must equal the reference evaluator written from the property statement (DESIGN.md A3); non-trivial = manifest with a build statement carrying block bindings; distinct by hash(abstract manifest) x hash(spelling)",
        "must_observe": ["abstract_manifests", "manifests_with_includes"],
        "assumptions": PURE_ASSUME,
    },
    "C12": {
        "stages": [pure(30, 420), real(6, 120), asan_pure(120), miri(400), real(0, 90, extra=["--wrap", "valgrind -q --error-exitcode=99 --trace-children=no"], tiers=("thorough",), n2="release"), fuzz("manifest", 240)],
        "rule": "(i) exhaustive: all sequences of <= 4 (quick) / 5 (thorough) tokens over 34 Ninja tokens (keywords, identifiers, spaces, newline, : | || |@ = $ '$ ' $-newline ${ } $x # tab NUL CR e-acute 0xff . .. / digit), each with and without a final newline, loaded from memory; (ii) mutations of valid generated manifests (truncate at a byte, delete/duplicate/swap ranges, raw bytes, dropped final newline, 10-800 character lines of multi-byte characters around an error, paths of 1-200 components, empty expansions); (iii) raw random bytes; (iv) depfile bytes; (v) deep/empty paths straight into the canonicaliser; (vi) include/subninja of itself, of a cycle, of a directory, of a missing file, of an empty expansion. Oracle: no panic, no abort (ub_checks/overflow/stack overflow kill the worker and are attributed by bisection), Ok or a non-empty diagnostic; parse errors must have the `parse error: ...`, `<file>:<line>: excerpt`, caret-line shape with the line in range; non-trivial = input that gets past the first statement keyword; evidence lists the distinct parser outcomes reached; process level also: depfiles left by a successful command, and trees with non-UTF-8 names built twice",
        "must_observe": ["exhaustive_inputs", "mutated_inputs", "include_cycle_inputs", "path_inputs", "depfile_inputs"],
        "assumptions": PURE_ASSUME + ["process-level clauses (exit status 1, `n2: error:` prefix) are checked by the black-box stage when present"],
    },
    "C13": {
        "stages": [pure(12, 240), real(6, 120), asan_pure(120), miri(1500), sim(8, 150), fuzz("canon", 120)],
        "rule": "exhaustive over {a . / \\}^n for n <= 9 (quick) / 11 (thorough) and {a b . /}^n for n <= 8 / 10, then random paths of 1-60 components (UTF-8 names, .., ., empty, mixed separators) and re-spellings (inserted ./, x/../, doubled separators before the last component) which must canonicalise identically; checks: equals the independent component-list canonicaliser, idempotent, never longer, no ., empty or name/.. component left, .. only leading, same location; assert_unchecked/set_len preconditions are checked by the build profile; non-trivial = canon(p) != p; E1: histories in which commands report dependencies under several spellings (./x, a/../x, x) must be recorded under the canonical name and behave as one node (C09's workload); E2: command-line targets and depfile/showIncludes entries under other spellings through the real binary; loader probe: two spellings of one location written into one manifest as output, input and default target must be one node",
        "must_observe": ["exhaustive_inputs", "random_inputs", "respell_pairs"],
        "assumptions": PURE_ASSUME,
    },
    "C14": {
        "stages": [pure(12, 180), asan_pure(120)],
        "rule": "exhaustive: every (explicit, implicit) output list of one statement with 1-4 explicit and 0-3 implicit entries over 3 names containing a repeat (193 shapes), repeats spelled canon-equivalently: must load, print the `is repeated in output list` warning (stdout captured) and list each output once, explicit iff first seen in the explicit section; random: generated manifests with an output of one statement injected (any spelling, explicit or implicit, possibly across include/subninja) into a later statement: must be rejected with an error citing both statements' file:line; non-trivial = multiplicity >= 3, a repeat straddling the explicit/implicit boundary, a non-identical spelling or a second producer in another file",
        "must_observe": ["exhaustive_inputs", "cross_statement_inputs"],
        "assumptions": PURE_ASSUME,
    },
    "C15": {
        "stages": [pure(15, 240), asan_pure(120), miri(600), sim(8, 150), real(8, 150), fuzz("depfile", 120)],
        "rule": "exhaustive totality over all strings of length <= 9 (quick) / 10 (thorough) over {a, space, ':', backslash, newline}; structured depfiles of 1-6 `target: prerequisites` entries rendered with 0-3 spaces before the colon, spaces and/or backslash-newline continuations with indentation between prerequisites, blank lines, trailing spaces, optional final newline, Windows-style C:/x\\y names, entries without prerequisites, repeated targets; read through n2's real depfile reader from a file and compared with the listed prerequisites in order (repeated targets: grouped under the first occurrence); missing depfile = empty; malformed content must fail with a parse error naming the depfile; non-trivial = >= 2 entries or a continuation; end to end: E1 histories in which the reported list grows, shrinks to nothing or changes spelling (C09 workload: what is recorded must be exactly the last report), and E2 histories with real depfiles written by the commands (continuations, optional final newline, sometimes no depfile at all when nothing is to be reported); end to end also: depfiles left as symbolic links, a depfile path with .. behind a symlinked directory, steps with both depfile and deps = msvc",
        "must_observe": ["exhaustive_inputs", "structured_inputs", "missing_depfile_checks", "malformed_rejected"],
        "assumptions": PURE_ASSUME,
    },
    "C20": {
        "stages": [pure(15, 240), asan_pure(120), miri(60), real(14, 300), real(0, 180, tiers=("thorough",), n2="tsan")],
        "rule": "exhaustive: strings of <= 6 (quick) / 7 (thorough) characters over {a, e-acute, katakana BI, emoji} with 0/3/9 bytes of ASCII padding x columns 10..len+15 x seconds {0,2,3,99,100,999,1000,99999,10^6} through task_message, every max through truncate, all state-count vectors with total <= 12 through progress_bar(40); random long strings (combining marks, raw non-UTF-8 bytes through from_utf8_lossy), widths 10-300, large counts; oracle: no panic, result = prefix at a character boundary + ... + time note, at most max(cols, note+3) bytes, unchanged iff it fits, bar exactly 40 bytes; non-trivial = the naive cut position falls inside a multi-byte character; black box: builds of 3-10 (quick) / 3-30 (thorough) tasks whose descriptions, commands and last output lines mix 1-4 byte characters, combining marks and raw non-UTF-8 bytes, run under a pseudo-terminal of width 1-300 (with a resize during the build in a third of the cases) and, as a twin, without a terminal: exit status, outputs built and summary line must agree, every progress bar shown must be 40 wide with total = wanted commands, cut task lines must fit the terminal",
        "must_observe": ["exhaustive_strings", "exhaustive_count_vectors", "random_inputs"],
        "assumptions": PURE_ASSUME + ["end-to-end pty runs are a separate black-box stage when present"],
    },
    "C16": {
        "stages": [real(40, 480, extra=["--strace", "1"]), real(0, 180, extra=["--strace", "0"], tiers=("thorough",), n2="asan"), real(0, 180, tiers=("thorough",), n2="tsan"), real(0, 120, extra=["--wrap", "valgrind -q --error-exitcode=99 --trace-children=no"], tiers=("thorough",), n2="release")],
        "rule": "black box: 4-20 (quick) / 8-64 (thorough) independent tasks at -j 1-16 whose commands print planned byte streams (sizes 0, 1, 2, 4095, 4096, 4097, 8192, 65535, 65536, 65537, 150000, 300000; split over stdout and stderr in chunks of 1-70000 bytes, with and without final newline, with sleeps), exit with codes 0-255 or die by HUP/TERM/KILL/USR1/PIPE, use response files (quotes, UTF-8) and outputs in nested new directories; every agent checks cwd, stdin (/dev/null at EOF), open descriptors (only 0,1,2), stdout/stderr being one pipe, output directories, response file content and its argv; n2's stdout must contain each task's stream exactly once and contiguously, a `failed:` line exactly for the non-zero/signalled tasks, and the exit status must reflect them; every third case runs shell snippets (quotes, $$, redirections, subshells, backticks, UTF-8, tabs) under n2 and, as a differential twin, directly with /bin/sh -c, comparing the files produced, and a sample under strace compares the exact execve argv; non-trivial = at least 2 tasks with >= 4096 bytes of output and overlapping execution (from the agent log); every twelfth case sends SIGINT to n2's process group mid-build: n2 must stop starting commands and exit non-zero; terminal stage: the same under a pseudo-terminal, judged on an emulated screen (every failed or non-hidden command's header and output lines exactly once, contiguously); deps = msvc on a third of the tasks with CR LF / bare CR in the streams; gated self-interrupt case (a command sends itself SIGINT with other steps queued: nothing may start afterwards, exit status non-zero)",
        "must_observe": ["agent_events", "task_outputs_checked", "twin_files_compared"],
        "assumptions": REAL_ASSUME,
    },
}
