"""Per-property stage table for ./check (engines, budgets, evidence rules)."""

SIM_ASSUME = [
    "E1: n2's real library code runs in-process; only Runner::start/wait (process spawn and completion delivery) are replaced by the scripted executor behind cargo feature `verif`",
    "file system is tmpfs under /dev/shm; mtimes are set explicitly from a logical clock",
    "the abstract project (generator ground truth) and the reference model in /verif/n2v/src/{ap,model}.rs are correct",
]


def sim(quick_s, thorough_s):
    return {"engine": "sim", "variant": "verif", "budget_ms": {"quick": quick_s * 1000, "thorough": thorough_s * 1000}}


PROPS = {
    "C01": {
        "stages": [sim(20, 420)],
        "rule": "random DAG projects (2-14 steps, multi-output, order-only, validation, phony, pools, optional generated manifest) x initial state (fresh / built+edited) x -j/-k/targets/fault plan x completion order (systematic DFS over all completion orders when <= 5 (quick) / 7 (thorough) commands run, else FIFO/LIFO/random/hold policies); non-trivial = at least 2 commands ran and an ordering edge connects two steps that both ran; distinct by hash(graph shape, configuration, start/finish event sequence)",
        "must_observe": ["events", "dfs_complete_cases", "validation_pairs_checked"],
        "assumptions": SIM_ASSUME,
    },
    "C04": {
        "stages": [sim(20, 360)],
        "rule": "wide random DAGs (4-24 steps) with 0-3 pools of depth 0-3 plus console, -j 1-8, failures that free slots, policies that keep pools full; online monitor at every start (|running| <= j, per-pool <= depth, using the generator's pool assignment) and at every scheduler iteration (n2's own counters == harness running set); non-trivial = a limit was binding at some instant (something queued while -j or its pool was full) and commands ran; distinct by hash(shape, config, event sequence)",
        "must_observe": ["events", "limit_binding_instants", "undeclared_pool_cases"],
        "assumptions": SIM_ASSUME,
    },
    "C05": {
        "stages": [sim(20, 420)],
        "rule": "random DAGs x fault plans (1-3 failing steps: write nothing / all / some outputs then fail; interrupts) x -k in {1,2,3,100} x -j x completion orders (systematic for small cases); online containment and budget monitors, exit status check, and a fault-free follow-up invocation whose started set must equal the reference model's prediction; non-trivial = at least one failure, one step blocked by it and one unblocked step that ran",
        "must_observe": ["events", "followups_checked"],
        "assumptions": SIM_ASSUME,
    },
    "C06": {
        "stages": [sim(20, 360)],
        "rule": "random DAGs incl. injected ordering cycles (must be rejected with a real cycle listed, nothing of the cycle started) and validation-only cycles (must be accepted), generated manifests settled in phase 1, all -j/-k/pool combinations, systematic completion orders on small cases; hang = wait with nothing running / scheduler iterations without events beyond 4*steps+16 / panic; non-trivial = >= 3 steps with a step waiting for >= 2 producers, or a cyclic case",
        "must_observe": ["events", "cyclic_cases", "validation_cycle_cases"],
        "assumptions": SIM_ASSUME,
    },
    "C18": {
        "stages": [sim(20, 300)],
        "rule": "random DAGs with 0-3 default statements, command-line target subsets of size 0-4 under random canon-equivalent spellings; started set must equal the model's dirty steps of the closure (all edge kinds), no step outside the closure may even be considered by the scheduler (state snapshot at every iteration); non-trivial = closure is a strict non-empty subset of the steps",
        "must_observe": ["events"],
        "assumptions": SIM_ASSUME,
    },
    "C19": {
        "stages": [sim(20, 300)],
        "rule": "C01/C05 workloads with the progress monitor on: at every Progress::update and scheduler iteration total == non-phony wanted steps, counts == histogram of per-step states, count[running] == executor's running set, done+failed monotone, task_started/finished bracket executor events, final `ran N` == successful completions; non-trivial = execution with a wanted phony step, an up-to-date step and a step that ran",
        "must_observe": ["events", "progress_updates_observed"],
        "assumptions": SIM_ASSUME,
    },
}
