#!/usr/bin/env python3
"""Regenerate MANIFEST.json from lib/props.py and lib/manifest_meta.py."""
import json, os, sys
ROOT = os.path.dirname(os.path.dirname(os.path.abspath(__file__)))
sys.path.insert(0, os.path.join(ROOT, "lib"))
from props import PROPS
from manifest_meta import META, NOT_APPLICABLE, HOOK_COMMITS

props = [json.loads(l) for l in open(os.path.join(ROOT, "properties.jsonl"))]
checks = []
for p in props:
    pid = p["id"]
    if pid not in PROPS or pid not in META:
        continue
    m = META[pid]
    checks.append({
        "property_id": pid,
        "quick_cmd": "./check %s --tier quick" % pid,
        "thorough_cmd": "./check %s --tier thorough" % pid,
        "evidence_file": "evidence/%s.json" % pid,
        "replay_cmd_template": "./check replay {path}",
        "engine": m["engine"],
        "level_claimed": {"category": m.get("category", "exploration"), "text": m["text"], "design_ref": "DESIGN.md section 5, " + pid},
        "level_note": m["note"],
        "technique": m["technique"],
    })
na = []
for p in props:
    if p["id"] not in [c["property_id"] for c in checks]:
        na.append({"property_id": p["id"], "reason": NOT_APPLICABLE.get(p["id"], "check not built yet (work in progress; see DESIGN.md section 5)")})
man = {
    "version": 1,
    "setup_cmd": "./check setup",
    "hooks": {
        "guard": "cargo feature `verif` (off by default)",
        "enable": "the harness crate /verif/n2v depends on n2 by path with features=[\"verif\"], default-features=false; ./check builds it with cargo --profile verif",
        "baseline_off_cmd": "cd /repo && cargo test --workspace --no-fail-fast --offline",
        "source_commits": HOOK_COMMITS,
        "add_only": True,
    },
    "engines": [
        {"name": "pure", "path": "n2v/src/pure/", "serves_properties": [c["property_id"] for c in checks if "pure" in c["engine"]],
         "kind_free_text": "E3: function-level monitors; n2's real functions (canonicaliser, loader, depfile reader, render helpers) called in-process through cfg-gated facades and compared with independent references / generator ground truth; exhaustive short-input enumeration + random long inputs"},
        {"name": "real", "path": "n2v/src/real.rs", "serves_properties": [c["property_id"] for c in checks if "real" in c["engine"]],
         "kind_free_text": "E2: black box; the real n2 binary built from /repo runs real /bin/sh commands (n2v-agent) in generated project directories; oracles over the agents' event log, n2's stdout/exit status, the files and the log left behind, and the reference model"},
        {"name": "sim", "path": "n2v/src/sim.rs", "serves_properties": [c["property_id"] for c in checks if "sim" in c["engine"]],
         "kind_free_text": "E1: in-process scripted executor; n2's real scheduler, loader, db and hashing run, the process boundary is replaced by a harness that chooses completion order/outcome and applies simulated command effects to a real tmpfs tree; online trace monitors + reference model"},
    ],
    "checks": checks,
    "not_applicable": na,
    "notes": "Runtime monitoring only: every verdict is an oracle observing executions of n2's real code. See DESIGN.md.",
}
json.dump(man, open(os.path.join(ROOT, "MANIFEST.json"), "w"), indent=1)
print("wrote MANIFEST.json with %d checks, %d not_applicable" % (len(checks), len(na)))
