HOOK_COMMITS = ["3faef0c", "9006d07", "298300c"]

NOT_APPLICABLE = {}

_SIM_NOTE = "Trusted: the scripted executor's model of command effects, the generator's abstract project, the reference model (n2v/src/model.rs), tmpfs semantics. Not covered: the real process runner (covered by C16's black-box runs), mtime granularity, anything the generators do not produce. A pass means: held on the executions counted in the evidence file."

META = {
    "C01": {"engine": "sim", "technique": "online trace monitor over scripted-executor runs of the real scheduler; systematic + random completion orders",
            "text": "Every start event is checked online against the generator's ordering relation (no ordering ancestor running, failed, or started later; at most one start per load epoch), over ~10^5 generated graph/config/schedule combinations per quick run, with all completion orders enumerated for small cases; the no-ordering clause for validation edges is decided with a hold-back completion policy.",
            "note": _SIM_NOTE},
    "C04": {"engine": "sim", "technique": "online concurrency monitor at every start + invariant hook comparing n2's pool/runner counters with the executor's running set",
            "text": "Exploration of wide graphs with binding -j and pool depths; the monitor uses the generator's pool assignment, not n2's, and the evidence counts the instants at which a limit was actually binding.",
            "note": _SIM_NOTE},
    "C05": {"engine": "sim", "technique": "fault injection at the executor (failing/interrupted commands) + containment/budget trace monitors + follow-up invocation checked against a reference model",
            "text": "Random and systematic fault plans; containment and the -k budget are checked at every start, exit status at the end, and 'never recorded as up to date' / 'everything else was brought up to date' by a fault-free follow-up build whose run set must equal the model's prediction.",
            "note": _SIM_NOTE},
    "C06": {"engine": "sim", "technique": "bounded-progress monitor at the single blocking call (Runner::wait) and scheduler loop; independent cycle detection",
            "text": "Liveness restated as bounded progress: a wait with nothing running, a scheduler spinning beyond 4*steps+16 iterations without an event, or a panic is a violation; cycles are compared with an independent cycle detector. A finite run cannot decide unbounded 'eventually'; see DESIGN.md section 9.",
            "note": _SIM_NOTE},
    "C18": {"engine": "sim", "technique": "closure oracle (reference model) on started sets + per-iteration scheduler-state snapshot (no step outside the closure is ever considered)",
            "text": "Exploration over graphs, default statements and target subsets under random spellings; exact comparison of started sets with the model's closure-restricted dirty set.",
            "note": _SIM_NOTE + " -f/-C/builddir argument handling lives in the binary and is exercised by the black-box stage when present."},
    "C19": {"engine": "sim", "technique": "invariant hook at every scheduler iteration and Progress callback, cross-checked with the executor's event stream",
            "text": "Every loop iteration of every execution contributes an observation: counts vs per-step states vs executor running set; final task count vs successful completions.",
            "note": _SIM_NOTE},
}
