HOOK_COMMITS = ["3faef0c", "9006d07", "298300c"]
FIX_COMMITS = ["d8c81bf", "eed55ce"]

NOT_APPLICABLE = {}

_SIM_NOTE = "Trusted: the scripted executor's model of command effects, the generator's abstract project, the reference model (n2v/src/model.rs), tmpfs semantics. Not covered: the real process runner (covered by C16's black-box runs), mtime granularity, anything the generators do not produce. A pass means: held on the executions counted in the evidence file."

META = {
    "C01": {"engine": "sim", "technique": "online trace monitor over scripted-executor runs of the real scheduler; systematic + random completion orders",
            "text": "Every start event is checked online against the generator's ordering relation (no ordering ancestor running, failed, or started later; at most one start per load epoch), over ~10^5 generated graph/config/schedule combinations per quick run, with all completion orders enumerated for small cases; the no-ordering clause for validation edges is decided with a hold-back completion policy.",
            "note": _SIM_NOTE},
    "C04": {"engine": "sim", "technique": "online concurrency monitor at every start + invariant hook comparing n2's pool/runner counters with the executor's running set",
            "text": "Exploration of wide graphs with binding -j and pool depths; the monitor uses the generator's pool assignment, not n2's, and the evidence counts the instants at which a limit was actually binding.",
            "note": _SIM_NOTE},
    "C05": {"engine": "sim", "technique": "fault injection at the executor (failing/interrupted commands) + containment/budget trace monitors + follow-up invocation checked against a reference model",
            "text": "Random and systematic fault plans; containment and the -k budget are checked at every start, exit status at the end, and 'never recorded as up to date' / 'everything else was brought up to date' by a fault-free follow-up build whose run set must equal the model's prediction.",
            "note": _SIM_NOTE},
    "C06": {"engine": "sim", "technique": "bounded-progress monitor at the single blocking call (Runner::wait) and scheduler loop; independent cycle detection",
            "text": "Liveness restated as bounded progress: a wait with nothing running, a scheduler spinning beyond 4*steps+16 iterations without an event, or a panic is a violation; cycles are compared with an independent cycle detector. A finite run cannot decide unbounded 'eventually'; see DESIGN.md section 9.",
            "note": _SIM_NOTE},
    "C18": {"engine": "sim", "technique": "closure oracle (reference model) on started sets + per-iteration scheduler-state snapshot (no step outside the closure is ever considered)",
            "text": "Exploration over graphs, default statements and target subsets under random spellings; exact comparison of started sets with the model's closure-restricted dirty set.",
            "note": _SIM_NOTE + " -f/-C/builddir argument handling lives in the binary and is exercised by the black-box stage when present."},
    "C19": {"engine": "sim", "technique": "invariant hook at every scheduler iteration and Progress callback, cross-checked with the executor's event stream",
            "text": "Every loop iteration of every execution contributes an observation: counts vs per-step states vs executor running set; final task count vs successful completions.",
            "note": _SIM_NOTE},
    "C02": {"engine": "sim", "technique": "reference-model oracle over generated edit/build histories run through the real code with a scripted executor; clean-build content comparison",
            "text": "After every successful invocation of ~10^5 generated histories per quick run the content of each requested output is compared with the reference model's from-scratch content, and the started set must contain every step the model's dirty rule marks (with the reason reported).",
            "note": _SIM_NOTE},
    "C03": {"engine": "sim", "technique": "exact run-set comparison against an independent model of the manifest dirty rule, per invocation of generated histories; no-op rebuild and restat episodes",
            "text": "The started set of every invocation must equal the model's prediction; the model is the property's sentence (record applicability, missing files, recorded names/mtimes/command/rspfile) and shares no code with n2.",
            "note": _SIM_NOTE},
    "C07": {"engine": "sim", "category": "fault_enumeration", "technique": "fault injection at every db append x byte count (hook in front of write), recovery checked by reference model + independent log reader",
            "text": "Per generated history every log write of the abandoned build and (thorough: every, quick: most) byte counts 0..len are enumerated; the next two invocations are compared with the model whose record store contains exactly the completely written records, and the file is re-read by an independent parser.",
            "note": _SIM_NOTE + " Crash = unwinding out of n2 at the write (Drop handlers run, nothing else); reordered/lost earlier writes (no fsync) are not modelled."},
    "C08": {"engine": "sim", "technique": "round-trip monitor (what n2 loads per step vs an independent reader's latest applicable record) + exact run-set oracle over manifest-rewrite histories",
            "text": "Record shapes up to 70000 deps / 40 outputs / 3900-byte non-ASCII names and histories of semantics-preserving rewrites and output moves; the >= 65536-dep overflow is a recorded known finding (F2).",
            "note": _SIM_NOTE},
    "C09": {"engine": "sim", "technique": "exact run-set oracle over histories that change the reported dependency set; recorded dep lists decoded from log writes",
            "text": "The model keeps, per step, the canonicalised de-duplicated dep list of the last successful run and replaces it wholesale; every invocation's started set and every written record's dep list are compared.",
            "note": _SIM_NOTE + " showIncludes filtering and depfile parsing are function-level checks (pure stage / C15)."},
    "C17": {"engine": "sim", "technique": "trace monitor keyed on the reload event + per-phase run-set oracle over manifest generations",
            "text": "Generator steps rewrite the manifest to the next generation inside the executor; per phase, started sets, the reload decision and the graph loaded after the reload are compared with the model of old/new generation.",
            "note": _SIM_NOTE},
}
