#!/usr/bin/env python3
"""Copy confirmed seeded changes into /verif/seeded/<id>/ and write seeded/RESULTS.md from the trial logs."""
import glob, json, os, shutil, sys
sys.path.insert(0, os.path.dirname(os.path.abspath(__file__)))
from seeded_meta import NEEDS

TRIALS = "/tmp/trials"
# strengthened in anticipation (the author's summary was read before the first trial run)
ANTICIPATED = {"C09-B", "C10-A", "C14-A", "C14-B", "C15-B", "C16-B", "C17-A", "C17-B", "C18-B", "C19-A", "C19-B", "C20-B", "C13-A", "C12-A", "C04-A",
               # round 2
               "C16-C", "C16-D", "C18-D", "C15-D", "C15-C", "C19-C", "C02-C", "C01-C", "C05-C", "C05-D", "C17-C", "C03-D", "C10-D", "C14-C",
               "C09-C", "C09-D", "C04-C", "C13-C", "C17-D", "C06-D", "C20-C", "C20-D", "C07-D"}
STRENGTHENED = [
    ("C02-A", "no generated project had a command reporting a dependency on a *generated* file it only has an order-only edge to (the classic generated-header case); added to the generator (ap.rs)"),
    ("C04-B", "the C04 workload had no regenerated manifest; added generations that change pool depths (sched.rs)"),
    ("C08-B", "C08's histories never changed what a command reports; include-set edits added to its operation mix (hist.rs)"),
    ("C13-B", "C13 had no in-process stage for dependencies *reported* under other spellings; C09's histories now also run under C13 (hist.rs)"),
    ("C18-A", "regenerated manifests in the C18 workload were textually identical (same internal numbering); generations that insert a statement in front added (sched.rs)"),
    ("C09-B", "E2 plans made failing commands silent; failing deps=msvc commands now print their include notes (real.rs)"),
    ("C10-A / C11", "variable names never contained '-'; `opt-level` added (pure/manifest.rs)"),
    ("C14-A", "a repeat followed by a further output that a later statement claims was not generated; added (pure/manifest_dups.rs)"),
    ("C13-A / C14-B", "paths deeper than 60 components were skipped after fix F5 made them legal; added to C13's random part and C14's duplicate injection"),
    ("C15-B", "blank lines in generated depfiles were empty; whitespace-only lines added (pure/depfile.rs)"),
    ("C16-B", "every C16 task had one output; nested second/third outputs added (props/real_c16.rs)"),
    ("C17-A", "generator rules never carried hide_success; added (ap.rs quiet_generator)"),
    ("C17-B / C18-A", "new statements of a generation were appended near the end (numbering of existing files unchanged); now inserted anywhere"),
    ("C18-B", "`default` statements were literal; spelled through a variable when commands are (ap.rs via_vars)"),
    ("C19-A", "StateCounts::total() was not observable in-process; exposed by hook 40471d7 and compared with the sum of the counts (sim.rs)"),
    ("C19-B", "the C19 workload had no `-t restat` invocation; added as a follow-up (sched.rs)"),
    ("C20-B", "count vectors were exhaustive only up to a total of 12; all (finished, in flight, waiting) triples up to 130 each added (pure/render.rs)"),
    ("C04-A", "restat-like (write-if-changed) commands were off in the C04 workload; switched on"),
    # round 2
    ("C02-D", "missed on the first trial: E2 histories rarely changed a response file; every third C02 E2 case now keeps rewriting response-file contents (often same length), and the agent derives its outputs from the response file it finds on disk (realp.rs, agent.rs)"),
    ("C06-C", "missed on the first trial: C06 had no check that a failed build still ran everything runnable; the check C05 uses is now shared (sched.rs check_runs_everything_runnable)"),
    ("C12-C", "missed on the first trial: the endless loop hung all workers (and ate memory); the driver now caps worker address space and decides hangs by re-running the journalled input alone (check), CRLF line endings are one of the manifest mutations (pure/total.rs)"),
    ("C16-C", "task output streams were ASCII; they now contain Latin-1, truncated UTF-8 and binary bytes (agent_stream.rs)"),
    ("C16-D", "C16 was a single invocation; a second one shortens/changes response files and the agents compare what they find (real_c16.rs)"),
    ("C18-D", "E2 never passed unknown names or -d ninja_compat; added (realp.rs)"),
    ("C15-C / C15-D", "C15 was function-level only; end-to-end stages added (E1 via C09's histories, E2 with real depfiles incl. 'no depfile at all'), and three malformed classes (backslash between tokens) must now be rejected (pure/depfile.rs)"),
    ("C19-C", "every generated step had a command; a real step whose command evaluates to the empty string added (ap.rs ver 0)"),
    ("C02-C", "all inputs were regular files; a fifth of the sources are now symbolic links whose targets are edited in place (sim.rs init_sources)"),
    ("C01-C / C05-C", "E2 failing commands only used exit codes; some now die by TERM/KILL/SEGV/HUP with the shell, and C01's E2 judge checks containment (realp.rs)"),
    ("C05-D / C17-C", "generated manifests in the C05 workload, generator with two generated prerequisites (sched.rs add_regen)"),
    ("C03-D", "a command that rewrites a file it reports as a dependency (module cache) added to C03 (hist.rs)"),
    ("C10-D", "rule names were unique; a subninja file may now redeclare a rule name of its parent (pure/manifest.rs)"),
    ("C14-C", "re-spellings only used '/' noise; './'-style noise with backslashes and names with backslash separators added (ap.rs respell, pure/manifest.rs)"),
    ("C09-C / C09-D", "C09 histories now delete plain sources (an order-only input that is also reported), and command output may end in an include note without newline (hist.rs, pure/depfile.rs)"),
    ("C04-C", "pool names were literal in the rule; now also through a build-block binding (ap.rs via_vars), and a differing pool assignment is reported under C04 (sim.rs)"),
    ("C13-C / C17-D", "-f was never given a non-canonical spelling; added to C17 histories, C13 runs a third of its E1 cases on them (hist.rs)"),
    ("C06-D", "C06 commands did not report dependencies; they do now, including a scratch header that is gone afterwards (sched.rs)"),
    ("C20-C / C20-D", "pty builds now use hide_progress/hide_success and check the width of frames drawn after a resize (real_misc.rs)"),
    ("C07-D", "manifest edits between the crash and the recovery build (hist.rs crash_case)"),
]
OUT = "/verif/seeded"

# round 3 (E/F): the first trial of every change was blind (its description had not been read)
BLIND = lambda sid: sid[-1] in "EFGH"
# first trial reported for the wrong reason (an unsound check that was corrected afterwards)
FIRST_REPORT_UNSOUND = {"C16-F"}
STRENGTHENED += [
    ("round 3 (E, F)", "40 further changes, every first trial blind: 19 were reported at once, 21 only after the extensions below"),
    ("C02-E", "missed blind (rate): signal-killed commands were 1 in 20 E2 invocations of an 8 s stage; now 2 in 5 of the faulty ones, stage budget 14 s (realp.rs, props.py)"),
    ("C02-F", "missed blind: C02 had no generated manifests; every fifth C02 history now runs C17's operations under C02's oracle (hist.rs)"),
    ("C03-E", "missed blind: C03's histories had no torn log tails; C02/C03/C08/C09 histories now contain builds that die inside a log append (hist.rs, inv.crash)"),
    ("C03-F", "missed blind: no file ever had an mtime at or before the Unix epoch; stamp-at-epoch edits added (sim.rs stamp_epoch, hist.rs)"),
    ("C05-E", "missed blind: SIGINT only ever hit commands that die of it; gated E2 sessions added in which commands trap SIGINT and exit 0 without doing their work (real_gated.rs c05_sigint_case)"),
    ("C08-F", "missed blind: every name in every workload was valid UTF-8; an E2 stage with Latin-1/arbitrary-byte output, directory and header names added to C08 (real_misc.rs c08_rawname_case)"),
    ("C10-E", "missed blind: spacing had at most one continuation in a row and none before the end of a line; runs of 2-3 and trailing ones added (pure/manifest.rs gap)"),
    ("C11-E", "missed blind: no variable was ever called in/out/in_newline/out_newline; added as file-level and block bindings (pure/manifest.rs var_name)"),
    ("C11-F / C18-E", "missed blind (the same change, written independently for two properties): builddir was only bound at the top; now bound in included and subninja files (pure/manifest.rs), and C18's twin runs compare the log location with builddir bound in a subninja/included file (real_misc.rs)"),
    ("C12-E", "missed blind: the process-level stage had no depfiles; depfiles left by a successful command (naming missing paths, directories, malformed, random) added, judged over two invocations (real_misc.rs)"),
    ("C13-F", "missed blind: path re-spelling of the manifest was an edit operation of C08 only; C13's histories now start from a manifest whose every path, default targets included, is respelled (hist.rs, realp.rs)"),
    ("C14-E", "missed blind: the duplicate was always spelled literally; now also through a build-block variable that shadows a file-level one (pure/manifest_dups.rs)"),
    ("C15-E", "missed blind: no step had both depfile and deps=msvc; added to E2 (realp.rs new_world)"),
    ("C17-E", "missed blind: generations never rewrote an included file; the CMake layout (include rewritten by the generator) added to E1 and E2 (hist.rs, realp.rs)"),
    ("C17-F", "missed blind: the generator never reported dependencies; it now does (GN style depfile), with lists that change and shrink to nothing across generations (hist.rs make_generations)"),
    ("C18-F", "missed blind: C18 only judged successful invocations; a refused acyclic request is now a violation (sched.rs closure-refused)"),
    ("C16-F", "counted as missed blind: its first trial did exit 1, but only through `start-after-sigint`, a bound that was unsound when no command was executing at the signal (found and corrected in this round, see DESIGN B5); with the bound corrected the change went unreported until C16 got a terminal stage: commands' output and failure headers as finally visible on an emulated screen (real_gated.rs c16_pty_case, screen_rows)"),
    ("C19-F", "missed blind: the running count shown on a terminal was never compared with the commands executing; gated pty sessions compare the displayed D/T done, R running with the truth at quiescent points (real_gated.rs c19_pty_case)"),
    ("C20-E / C20-F", "missed blind: failing pty commands always printed something and narrow terminals were 1 case in 72; silent failures (exit 3, test -e) and widths 1-9 are now frequent, and a width below 10 must not be rendered for (real_misc.rs c20_pty_case)"),
]

STRENGTHENED += [
    ("round 4 (G, H)", "40 more, again blind, written to avoid the six earlier changes per property (so more exotic): 15 were reported at once, 24 after the extensions below; C03-G is reported by C02's check and is not a violation of C03 as stated (it makes n2 skip a step; C03 only forbids running one)"),
    ("C01-G / C01-H", "missed blind: loader slips (a leading ./ kept, file scope consulted before the block's bindings) disconnect producer and consumer; every E1/E2 project is now also run under noisy spellings and with paths written through block variables that shadow file-level ones (ap.rs shadow_seed, sched.rs, hist.rs, realp.rs)"),
    ("C02-H", "missed blind: no build line listed the same input twice; added (hist.rs)"),
    ("C03-H / C16-H", "missed blind: include notes always had one space and output never had CR LF; nested notes (agent.rs), CR LF and bare CR in the streams and deps=msvc on some C16 tasks (agent_stream.rs, real_c16.rs)"),
    ("C04-G", "missed blind: pools were shallow and -j small; deep-pool cases (depth 8-33, -j above it) added (sched.rs)"),
    ("C04-H / C05-G", "missed blind: no command printed tens of megabytes and kept running, none failed to spawn; gated E2 cases added (real_gated.rs c04_bigout_case, c05_spawn_failure_case)"),
    ("C06-G / C06-H", "missed blind: C06 had no commands leaving later outputs unwritten and no process-level depfiles; added (sched.rs SomeOutputs, real_misc.rs depfile kind incl. a trailing backslash)"),
    ("C07-G", "missed blind: logs were smaller than the reader's 8 KiB window; logs whose records end exactly on multiples of 8192 bytes added (hist.rs aligned_case)"),
    ("C08-G", "missed blind (third independent occurrence of the builddir-in-subninja change): a subninja file with a private builddir is now one of C08's manifest rewrites (ap.rs sub_builddir)"),
    ("C10-H / C14-G / C14-H", "missed blind: every file was named by one statement; the template idiom (a bindings file included from several places, diamonds), a subninja file loaded twice, and a duplicate spelled through a variable re-bound by an included file added (pure/manifest.rs, manifest_dups.rs)"),
    ("C12-H", "missed blind: the process stage fed bytes once; raw-name trees built twice added under C12 (realp.rs dispatch)"),
    ("C13-H", "missed blind: C13's function-level stage never went through the loader; a probe that writes two spellings into one manifest (output, input, default) and compares the nodes added (pure/canon.rs)"),
    ("C15-G / C15-H", "missed blind: depfiles were regular files at lexically plain paths; symbolic-link depfiles (agent.rs) and a depfile path with .. behind a symlinked directory added (realp.rs)"),
    ("C16-G", "missed blind: SIGINT always went to the whole group; a gated case in which one command signals itself added (real_gated.rs c16_interrupt_case)"),
    ("C17-H", "missed blind: the generator never rewrote a file it reports; gencache.h added (hist.rs, model.rs)"),
    ("C19-G / C19-H", "missed blind: the pty stage compared done/total/running only, with at most 7 commands; the in-flight count, phony aliases and up to 14 commands at -j 16 added (real_gated.rs)"),
    ("C20-H", "missed blind: last-output-line rows were not measured; now measured on the bytes sent to the terminal (real_misc.rs)"),
]


def from_readme(d):
    """(what, needs) from the author's README when lib/seeded_meta.py has no hand-written entry."""
    import re
    for n in ("README.md", "README.txt", "README"):
        p = os.path.join(d, n)
        if os.path.exists(p):
            t = open(p, errors="replace").read()
            break
    else:
        return ("", "")
    title = t.splitlines()[0].lstrip("# ").strip()
    title = re.sub(r"^Mutation [A-F]\s*[-:\u2014]+\s*", "", title)
    m = re.search(r"^#+\s*What is needed[^\n]*\n(.*?)(?=^#+\s)", t, re.S | re.M)
    needs = " ".join(m.group(1).split())[:420] if m else ""
    return (title.replace("|", "/"), needs.replace("|", "/"))

def load(p):
    try:
        t = open(p).read()
    except Exception:
        return None
    i = t.find("{")
    try:
        return json.loads(t[i:])
    except Exception:
        j = t.rfind("\n{")
        try:
            return json.loads(t[j + 1:])
        except Exception:
            return None

rows = []
for f in sorted(glob.glob(os.path.join(TRIALS, "*.confirm.json"))):
    sid = os.path.basename(f)[:-len(".confirm.json")]
    prop, which = sid.split("-")
    c = load(f)
    if not c or not c.get("confirmed"):
        rows.append((sid, "not confirmed", "", ""))
        continue
    d = os.path.join(OUT, sid)
    os.makedirs(d, exist_ok=True)
    src = os.path.join("/tmp/mut-" + prop, "mutations", which)
    for n in os.listdir(src):
        if n.endswith(".log") or (n.endswith(".txt") and n != "README.txt") or n.endswith(".out"):
            continue
        shutil.copy(os.path.join(src, n), os.path.join(d, n))
    det = {}
    for df in sorted(glob.glob(os.path.join(TRIALS, sid + ".detect*.json"))):
        dd = load(df) or {}
        for k, v in dd.items():
            sigs = [x.split("replay=")[1].split("/")[-1].rsplit("-seed", 1)[0] for x in v.get("violations", [])]
            prev = det.get(k)
            # later runs (strengthened checks) supersede earlier ones
            det[k] = {"exit": v["exit"], "signatures": sigs, "details": v.get("first_details", [])[:3], "run": os.path.basename(df)}
            if prev and (prev["exit"] != 1 or sid in FIRST_REPORT_UNSOUND) and v["exit"] == 1:
                det[k]["missed_before_strengthening"] = True
    what, needs = NEEDS.get(sid) or from_readme(src)
    meta = {
        "id": sid,
        "property": prop,
        "change": what,
        "needs_to_manifest": needs,
        "confirmed": {
            "how": "lib/trial.py confirm: patch applied in the author's scratch worktree; cargo test --workspace --no-default-features (71 tests); demonstration run with the patched and with the clean binary",
            "tests_passed_with_patch": c.get("tests_passed"),
            "demo_exit_with_patch": c.get("demo_with_patch_exit"),
            "demo_exit_clean": c.get("demo_clean_exit"),
            "demo": os.path.basename(c.get("demo") or ""),
        },
        "checks_run": det,
    }
    json.dump(meta, open(os.path.join(d, "meta.json"), "w"), indent=1)
    caught = [k for k, v in det.items() if v["exit"] == 1]
    note = ""
    if any(v.get("missed_before_strengthening") for v in det.values()):
        note = " — missed on the first%s trial; reported after the workload was extended (see below)" % (" (blind)" if BLIND(sid) else "")
    elif sid == "C03-G":
        note = " — blind; not reported by C03's check and not a violation of C03 as stated (a skipped step): reported by C02's check, run afterwards"
    elif BLIND(sid):
        note = " — blind first trial"
    elif sid in ANTICIPATED:
        note = " — workload extended after reading the change's description, before its first trial"
    rows.append((sid, what, needs, (", ".join("%s (%s)" % (k, "; ".join(det[k]["signatures"][:2])) for k in caught) or "MISSED by " + ", ".join(det.keys())) + note))

with open(os.path.join(OUT, "RESULTS.md"), "w") as f:
    f.write("# Seeded changes and which quick checks report them\n\n")
    f.write("Generated by lib/seeded_collect.py from the trial logs (lib/trial.py). Each change keeps the 71 baseline tests green,\n")
    f.write("was written by a sub-agent that saw only the property text, and was re-confirmed before being kept.\n\n")
    f.write("| id | change | needs | reported by (first signatures) |\n|---|---|---|---|\n")
    for r in rows:
        f.write("| %s | %s | %s | %s |\n" % r)
with open(os.path.join(OUT, "RESULTS.md"), "a") as f:
    f.write("\n## What was extended because of these changes\n\n")
    for k, v in STRENGTHENED:
        f.write("* **%s** — %s\n" % (k, v))
    f.write("\nNo check was loosened, and no oracle was changed to fit a seeded change; all extensions are new workload shapes or one new observation point (the total() hook).\n")
print(open(os.path.join(OUT, "RESULTS.md")).read())
