#!/usr/bin/env python3
"""One blind trial of a seeded change, end to end (rounds 5+; earlier rounds used seeded_collect.py over /tmp/trials).

  seeded_round.py <worktree> <letter> <Cxx> [<other Cxx> ...]

confirm (71 tests with the patch, demonstration fails with / passes without) -> detect with the quick check(s) in the
scratch harness -> keep under /verif/seeded/<Cxx>-<letter>/ with meta.json, confirm.json and detect1.json.
A later `seeded_round.py --redetect <id> <Cxx>...` (after a check was extended) writes detectN.json and updates meta.json.
Rows for RESULTS.md are printed; they are appended to the "Round 5" section by hand.
"""
import glob, json, os, re, shutil, sys
sys.path.insert(0, os.path.dirname(os.path.abspath(__file__)))
import trial

OUT = "/verif/seeded"


def readme(d):
    for n in ("README.md", "README.txt", "README"):
        p = os.path.join(d, n)
        if os.path.exists(p):
            t = open(p, errors="replace").read()
            title = t.splitlines()[0].lstrip("# ").strip()
            title = re.sub(r"^Mutation [A-Z]\s*[-:—]+\s*", "", title)
            m = re.search(r"^#+\s*(?:What is needed|What it needs|Needs)[^\n]*\n(.*?)(?=^#+\s|\Z)", t, re.S | re.M)
            needs = " ".join(m.group(1).split())[:420] if m else ""
            return title.replace("|", "/"), needs.replace("|", "/")
    return "", ""


def sigs_of(v):
    return [x.split("replay=")[1].split("/")[-1].rsplit("-seed", 1)[0] for x in v.get("violations", []) if "replay=" in x]


def write_meta(d, sid, prop):
    c = json.load(open(os.path.join(d, "confirm.json")))
    det = {}
    for df in sorted(glob.glob(os.path.join(d, "detect*.json"))):
        for k, v in json.load(open(df)).items():
            prev = det.get(k)
            det[k] = {"exit": v["exit"], "signatures": sigs_of(v), "details": v.get("first_details", [])[:3], "run": os.path.basename(df)}
            if prev and prev["exit"] != 1 and v["exit"] == 1:
                det[k]["missed_before_strengthening"] = True
            elif prev and prev.get("missed_before_strengthening"):
                det[k]["missed_before_strengthening"] = True
    what, needs = readme(d)
    meta = {"id": sid, "property": prop, "round": 5, "blind_first_trial": True, "change": what, "needs_to_manifest": needs,
            "confirmed": {"how": "lib/trial.py confirm: patch applied in the author's scratch worktree; cargo test --workspace --no-default-features (71 tests); demonstration run with the patched and with the clean binary",
                          "tests_passed_with_patch": c.get("tests_passed"), "demo_exit_with_patch": c.get("demo_with_patch_exit"),
                          "demo_exit_clean": c.get("demo_clean_exit"), "demo": os.path.basename(c.get("demo") or "")},
            "checks_run": det}
    json.dump(meta, open(os.path.join(d, "meta.json"), "w"), indent=1)
    caught = [k for k, v in det.items() if v["exit"] == 1]
    rep = ", ".join("%s (%s)" % (k, "; ".join(det[k]["signatures"][:2])) for k in caught) or "MISSED by " + ", ".join(det.keys())
    if any(v.get("missed_before_strengthening") for v in det.values()):
        rep += " — missed on the first (blind) trial; reported after the workload was extended"
    else:
        rep += " — blind first trial"
    print("| %s | %s | %s | %s |" % (sid, what, needs, rep))


def main():
    a = sys.argv[1:]
    if a[0] == "--redetect":
        sid, props = a[1], a[2:]
        d = os.path.join(OUT, sid)
        n = len(glob.glob(os.path.join(d, "detect*.json"))) + 1
        r = trial.detect(os.path.join(d, "patch.diff"), props)
        json.dump(r, open(os.path.join(d, "detect%d.json" % n), "w"), indent=1)
        write_meta(d, sid, sid.split("-")[0])
        return
    wt, which, prop = a[0], a[1], a[2]
    props = [x for x in a[2:] if not x.startswith("--")]
    sid = "%s-%s" % (prop, which)
    cj = os.path.join(wt, "mutations", which, "confirm.json")
    if os.path.exists(cj):
        c = json.load(open(cj))
    else:
        c = trial.confirm(wt, which)
        json.dump(c, open(cj, "w"), indent=1)
    if a[-1] == "--confirm-only":
        return
    if not c.get("confirmed"):
        print("NOT CONFIRMED", sid)
        sys.exit(2)
    src = os.path.join(wt, "mutations", which)
    r = trial.detect(os.path.join(src, "patch.diff"), props)
    d = os.path.join(OUT, sid)
    os.makedirs(d, exist_ok=True)
    for n in os.listdir(src):
        if n.endswith(".log") or n.endswith(".out") or n == "confirm.json" or os.path.isdir(os.path.join(src, n)):
            continue
        shutil.copy(os.path.join(src, n), os.path.join(d, n))
    json.dump(c, open(os.path.join(d, "confirm.json"), "w"), indent=1)
    json.dump(r, open(os.path.join(d, "detect1.json"), "w"), indent=1)
    write_meta(d, sid, prop)


if __name__ == "__main__":
    main()
