#!/usr/bin/env python3
"""Mutation trials: confirm a seeded change and run checks against it, in scratch copies.

  trial.py confirm <mutant-worktree> <A|B>          # 71 tests pass with patch; demo fails with / passes without
  trial.py detect <patch.diff> <Cxx> [<Cxx>...]     # run quick checks of a scratch harness copy against a scratch repo with the patch
  trial.py keep <mutant-worktree> <A|B> <id> <property> "<needs>"   # copy into /verif/seeded/<id>/

The scratch repo (/tmp/trial/repo) is a git worktree of /repo's HEAD and the scratch harness
(/tmp/trial/verif) an rsync copy of /verif whose crate points at it, so that /repo itself is
never patched while other work is going on.  Equivalent to `git -C /repo apply` + ./check + checkout.
"""
import json, os, subprocess, sys, time, shutil

TR = os.environ.get("TRIAL_DIR", "/tmp/trial")

def sh(cmd, **kw):
    return subprocess.run(cmd, shell=isinstance(cmd, str), stdout=subprocess.PIPE, stderr=subprocess.STDOUT, text=True, errors="replace", **kw)

def confirm(wt, which):
    d = os.path.join(wt, "mutations", which)
    patch = os.path.join(d, "patch.diff")
    demo = None
    for n in sorted(os.listdir(d)):
        if n.startswith("demo") and (n.endswith(".sh") or n.endswith(".py")):
            demo = os.path.join(d, n)
            break
    res = {"worktree": wt, "mutation": which, "demo": demo}
    sh(["git", "-C", wt, "checkout", "--", "src"])
    r = sh(["git", "-C", wt, "apply", "--check", patch]); res["applies"] = r.returncode == 0
    if not res["applies"]:
        print(json.dumps(res)); return res
    sh(["git", "-C", wt, "apply", patch])
    env = dict(os.environ, CARGO_TARGET_DIR=os.path.join(wt, "target"), CARGO_NET_OFFLINE="true", N2=os.path.join(wt, "target", "debug", "n2"))
    r = sh("cargo test --workspace --no-fail-fast --offline --no-default-features 2>&1 | grep -E '^test result'", cwd=wt, env=env)
    res["tests_with_patch"] = r.stdout.strip().splitlines()
    passed = sum(int(l.split(" passed")[0].split()[-1]) for l in res["tests_with_patch"] if " passed" in l)
    failed = sum(int(l.split(" failed")[0].split()[-1]) for l in res["tests_with_patch"] if " failed" in l)
    res["tests_passed"], res["tests_failed"] = passed, failed
    n2 = os.path.join(wt, "target", "debug", "n2")
    def run_demo():
        if demo.endswith(".py"):
            return sh(["python3", demo, n2], cwd=wt, env=env, timeout=600)
        first = open(demo, errors="replace").readline()
        shell = "bash" if "bash" in first else "sh"
        return sh([shell, demo, n2], cwd=wt, env=env, timeout=600)
    r = run_demo(); res["demo_with_patch_exit"] = r.returncode; res["demo_with_patch_tail"] = r.stdout[-600:]
    sh(["git", "-C", wt, "checkout", "--", "src"])
    sh("cargo build --offline --no-default-features", cwd=wt, env=env)
    r = run_demo(); res["demo_clean_exit"] = r.returncode; res["demo_clean_tail"] = r.stdout[-300:]
    res["confirmed"] = passed == 71 and failed == 0 and res["demo_with_patch_exit"] != 0 and res["demo_clean_exit"] == 0
    print(json.dumps(res, indent=1))
    return res

def setup_scratch():
    os.makedirs(TR, exist_ok=True)
    repo = os.path.join(TR, "repo")
    if not os.path.exists(repo):
        sh(["git", "-C", "/repo", "worktree", "add", "--detach", repo, "HEAD"])
    sh(["git", "-C", repo, "checkout", "--detach", "-q", sh(["git", "-C", "/repo", "rev-parse", "HEAD"]).stdout.strip()])
    sh(["git", "-C", repo, "checkout", "--", "."])
    ver = os.path.join(TR, "verif")
    # committed state only (work in progress in /verif must not leak into a trial)
    os.makedirs(ver, exist_ok=True)
    for n in os.listdir(ver):
        if n not in (".build", "replays", "evidence"):
            pth = os.path.join(ver, n)
            shutil.rmtree(pth) if os.path.isdir(pth) else os.remove(pth)
    if os.environ.get("TRIAL_WORKING"):
        # the working copy instead (for trying a strengthened check before committing it)
        sh("rsync -a --exclude .build --exclude replays --exclude evidence --exclude .git --exclude target /verif/ %s/" % ver)
    else:
        sh("git -C /verif archive HEAD | tar -x -C %s" % ver)
    ct = os.path.join(ver, "n2v", "Cargo.toml")
    s = open(ct).read().replace('path = "/repo"', 'path = "%s"' % repo)
    open(ct, "w").write(s)
    return repo, ver

def detect(patch, props, scale="1"):
    repo, ver = setup_scratch()
    r = sh(["git", "-C", repo, "apply", patch])
    if r.returncode != 0:
        print("patch does not apply: " + r.stdout); return None
    out = {}
    env = dict(os.environ, VERIF_REPO=repo, VERIF_BUDGET_SCALE=scale)
    for p in props:
        t0 = time.time()
        r = sh(["./check", p, "--tier", "quick"], cwd=ver, env=env)
        viol = [l for l in r.stdout.splitlines() if l.startswith("VIOLATION")]
        sigs = [l.strip() for l in r.stdout.splitlines() if l.startswith("  ") and ":" in l][:6]
        out[p] = {"exit": r.returncode, "violations": viol[:6], "first_details": sigs, "wall_s": round(time.time() - t0, 1),
                  "summary": [l for l in r.stdout.splitlines() if " quick seed=" in l]}
        print(p, "exit", r.returncode, viol[:3], sigs[:2], flush=True)
    sh(["git", "-C", repo, "checkout", "--", "."])
    return out

if __name__ == "__main__":
    a = sys.argv[1:]
    if a[0] == "confirm":
        confirm(a[1], a[2])
    elif a[0] == "detect":
        print(json.dumps(detect(a[1], a[2:]), indent=1))
    elif a[0] == "keep":
        wt, which, sid, prop, needs = a[1:6]
        d = os.path.join("/verif/seeded", sid)
        os.makedirs(d, exist_ok=True)
        src = os.path.join(wt, "mutations", which)
        for n in os.listdir(src):
            if n.endswith(".log") or n.endswith(".txt"):
                continue
            shutil.copy(os.path.join(src, n), os.path.join(d, n))
        print("kept", d)
